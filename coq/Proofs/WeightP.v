(* C12: why a MAXIMUM-WEIGHT spanning tree of the clique graph (weights = sizes of the clique intersections) is a junction tree.
   For a rooted tree t over cliques with duplicate-free scopes inside the domain D:
     weight t + sum_a #tops_a t = sum_a #nodes containing a        (weight_identity)
   where a "top" of attribute a is a node containing a whose parent does not.  Every attribute that occurs has at least one
   top, so weight t <= sum_a (N_a - 1), with equality exactly when every attribute has ONE top - the running-intersection
   property (single_tops_good: then the recursive predicate `good` of the exactness theorem C01 holds).  Hence: a tree over the
   same cliques whose weight is at least that of SOME junction tree is itself a junction tree (max_weight_is_junction_tree). *)
From Coq Require Import List Arith Lia Bool Permutation.
Import ListNotations.
Require Import PGM.Base.Alg PGM.Base.Sums PGM.Model.BP PGM.Proofs.JTP PGM.Proofs.JTreeP.

Section Weight.
Variable scope : nat -> list nat.
Notation vars := (vars scope).
Notation elimt := (elimt scope).
Notation good := (good scope).
Notation tops := (tops scope).

Definition b2n (b : bool) : nat := if b then 1 else 0.
Fixpoint cnt (a : nat) (t : rt) : nat :=
  match t with Node c ks => b2n (memb a (scope c)) + list_sum (map (cnt a) ks) end.
Fixpoint wedges (a : nat) (p : list nat) (t : rt) : nat :=
  match t with Node c ks => b2n (memb a (scope c) && memb a p) + list_sum (map (wedges a (scope c)) ks) end.
(* total weight of the tree edges: |scope(child) /\ scope(parent)| *)
Fixpoint weight (p : list nat) (t : rt) : nat :=
  match t with Node c ks => length (inter (scope c) p) + list_sum (map (weight (scope c)) ks) end.
Fixpoint wfs (D : list nat) (t : rt) : Prop :=
  match t with Node c ks => NoDup (scope c) /\ incl (scope c) D /\ (fix all (l : list rt) : Prop := match l with [] => True | k :: r => wfs D k /\ all r end) ks end.

Lemma wfs_kids D c ks : wfs D (Node c ks) -> Forall (wfs D) ks.
Proof. simpl. intros [_ [_ H]]. induction ks as [|k r IH]; constructor; tauto. Qed.

Lemma list_sum_flat {A} (f : A -> list nat) l : length (flat_map f l) = list_sum (map (fun x => length (f x)) l).
Proof. induction l as [|x l IH]; simpl; auto. rewrite app_length, IH. reflexivity. Qed.
Lemma list_sum_add {A} (f g : A -> nat) l : list_sum (map (fun x => f x + g x) l) = list_sum (map f l) + list_sum (map g l).
Proof. induction l as [|x l IH]; simpl; auto. rewrite IH. lia. Qed.
Lemma list_sum_ext_in {A} (f g : A -> nat) l : (forall x, In x l -> f x = g x) -> list_sum (map f l) = list_sum (map g l).
Proof. induction l as [|x l IH]; simpl; intros H; [reflexivity|]. rewrite (H x), IH; auto. Qed.
Lemma list_sum_le {A} (f g : A -> nat) l : (forall x, In x l -> f x <= g x) -> list_sum (map f l) <= list_sum (map g l).
Proof. induction l as [|x l IH]; simpl; intros H. lia. pose proof (H x (or_introl eq_refl)) as Hx. specialize (IH (fun y Hy => H y (or_intror Hy))). lia. Qed.
Lemma list_sum_eq_pointwise {A} (f g : A -> nat) l : (forall x, In x l -> f x <= g x) -> list_sum (map f l) = list_sum (map g l) ->
  forall x, In x l -> f x = g x.
Proof. induction l as [|y l IH]; simpl; intros H E x Hx. contradiction.
  assert (Hy := H y (or_introl eq_refl)). assert (Hl := list_sum_le f g l (fun z Hz => H z (or_intror Hz))).
  destruct Hx as [<-|Hx]. lia. apply IH; auto. lia. Qed.
Lemma list_sum_swap {A B} (f : A -> B -> nat) la lb :
  list_sum (map (fun a => list_sum (map (f a) lb)) la) = list_sum (map (fun b => list_sum (map (fun a => f a b) la)) lb).
Proof. induction la as [|a la IH]; simpl.
  - induction lb; simpl; auto.
  - rewrite IH. rewrite <- list_sum_add. reflexivity. Qed.

(* every node containing a is either a top or joined to its parent by an edge carrying a *)
Lemma wedges_tops a : forall t p, wedges a p t + length (tops a p t) = cnt a t.
Proof. induction t as [c ks IH] using rt_ind'. intros p. simpl. rewrite app_length, list_sum_flat.
  assert (E : list_sum (map (wedges a (scope c)) ks) + list_sum (map (fun k => length (tops a (scope c) k)) ks) = list_sum (map (cnt a) ks)).
  { rewrite <- list_sum_add. apply list_sum_ext_in. intros k Hk. rewrite Forall_forall in IH. apply IH; auto. }
  destruct (memb a (scope c)), (memb a p); simpl; lia. Qed.

Lemma b2n_sum_filter (Q : nat -> bool) D : list_sum (map (fun a => b2n (Q a)) D) = length (filter Q D).
Proof. induction D as [|d D IH]; simpl; auto. destruct (Q d); simpl; lia. Qed.
Lemma inter_length_sum D l p : NoDup D -> NoDup l -> incl l D ->
  length (inter l p) = list_sum (map (fun a => b2n (memb a l && memb a p)) D).
Proof. intros ND NL I. rewrite b2n_sum_filter. apply Permutation_length. apply NoDup_Permutation.
  - apply NoDup_filter; auto.
  - apply NoDup_filter; auto.
  - intros x. unfold inter. rewrite !filter_In, andb_true_iff, !memb_In. split; intros H; [|tauto]. split; [|tauto]. apply I; tauto. Qed.

Lemma weight_sum D : NoDup D -> forall t p, wfs D t -> weight p t = list_sum (map (fun a => wedges a p t) D).
Proof. intros ND. induction t as [c ks IH] using rt_ind'. intros p W. pose proof (wfs_kids D c ks W) as WK. destruct W as [NS [IS _]]. simpl.
  rewrite list_sum_add. f_equal. apply inter_length_sum; auto.
  rewrite list_sum_swap. apply list_sum_ext_in. intros k Hk. rewrite Forall_forall in IH, WK. apply IH; auto. Qed.

Theorem weight_identity D t : NoDup D -> wfs D t ->
  weight [] t + list_sum (map (fun a => length (tops a [] t)) D) = list_sum (map (fun a => cnt a t) D).
Proof. intros ND W. rewrite (weight_sum D ND t [] W), <- list_sum_add. apply list_sum_ext_in. intros a _. apply wedges_tops. Qed.

(* an attribute that occurs below a parent not containing it has a top *)
Lemma cnt_vars a : forall t, 1 <= cnt a t <-> In a (vars t).
Proof. induction t as [c ks IH] using rt_ind'. unfold BP.vars. simpl. rewrite in_app_iff. rewrite Forall_forall in IH.
  assert (K : 1 <= list_sum (map (cnt a) ks) <-> In a (flat_map scope (flat_map nodes ks))).
  { clear -IH. induction ks as [|k r IHr]; simpl. split; [lia|tauto].
    rewrite flat_map_app, in_app_iff. specialize (IH k (or_introl eq_refl)) as Hk. unfold BP.vars in Hk.
    specialize (IHr (fun x Hx => IH x (or_intror Hx))). split; intros H.
    - destruct (Nat.eq_dec (cnt a k) 0) as [Z|Z]. right. apply IHr. lia. left. apply Hk. lia.
    - destruct H as [H|H]. apply Hk in H. lia. apply IHr in H. lia. }
  destruct (memb a (scope c)) eqn:M; simpl.
  - split; intros _. left. now apply memb_In. lia.
  - split; intros H. right. apply K. lia. destruct H as [H|H]. apply memb_In in H. congruence. apply K in H. lia. Qed.
Lemma flat_map_app {A B} (f : A -> list B) l1 l2 : flat_map f (l1 ++ l2) = flat_map f l1 ++ flat_map f l2.
Proof. apply flat_map_app. Qed.
Lemma occurs_has_top a : forall t p, In a (vars t) -> ~ In a p -> 1 <= length (tops a p t).
Proof. induction t as [c ks IH] using rt_ind'. intros p V NP. simpl. rewrite app_length.
  destruct (memb a (scope c)) eqn:M; simpl.
  - rewrite (proj2 (memb_nIn a p) NP). simpl. lia.
  - apply cnt_vars in V. simpl in V. rewrite M in V. simpl in V. rewrite list_sum_flat.
    assert (NS : ~ In a (scope c)) by now apply memb_nIn. rewrite Forall_forall in IH. clear M.
    induction ks as [|k r IHr]; simpl in *. lia.
    destruct (Nat.eq_dec (cnt a k) 0) as [Z|Z].
    + assert (1 <= list_sum (map (fun k0 => length (tops a (scope c) k0)) r)) by (apply IHr; [intros; apply IH; auto|lia]). lia.
    + assert (1 <= length (tops a (scope c) k)). { apply IH; auto. apply cnt_vars. lia. } lia. Qed.
Lemma tops_le_cnt a t p : length (tops a p t) <= cnt a t.
Proof. pose proof (wedges_tops a t p). lia. Qed.

Theorem weight_upper_bound D t : NoDup D -> wfs D t ->
  weight [] t + list_sum (map (fun a => Nat.min 1 (cnt a t)) D) <= list_sum (map (fun a => cnt a t) D).
Proof. intros ND W. rewrite <- (weight_identity D t ND W). apply Nat.add_le_mono_l. apply list_sum_le. intros a _.
  destruct (Nat.eq_dec (cnt a t) 0) as [Z|Z]. rewrite Z. simpl. lia.
  assert (1 <= length (tops a [] t)). { apply occurs_has_top. apply cnt_vars. lia. auto. } lia. Qed.

Theorem weight_max_iff_single_tops D t : NoDup D -> wfs D t ->
  (weight [] t + list_sum (map (fun a => Nat.min 1 (cnt a t)) D) = list_sum (map (fun a => cnt a t) D)
   <-> forall a, In a D -> length (tops a [] t) <= 1).
Proof. intros ND W. pose proof (weight_identity D t ND W) as I.
  assert (LB : forall a, In a D -> Nat.min 1 (cnt a t) <= length (tops a [] t)).
  { intros a _. destruct (Nat.eq_dec (cnt a t) 0) as [Z|Z]. rewrite Z. simpl. lia.
    assert (1 <= length (tops a [] t)). { apply occurs_has_top. apply cnt_vars. lia. auto. } lia. }
  split.
  - intros E a Ha. assert (S : list_sum (map (fun a => Nat.min 1 (cnt a t)) D) = list_sum (map (fun a => length (tops a [] t)) D)) by lia.
    rewrite <- (list_sum_eq_pointwise _ _ D LB S a Ha). lia.
  - intros H. assert (S : list_sum (map (fun a => Nat.min 1 (cnt a t)) D) = list_sum (map (fun a => length (tops a [] t)) D)).
    { apply list_sum_ext_in. intros a Ha. specialize (H a Ha). specialize (LB a Ha). pose proof (tops_le_cnt a t []). lia. }
    lia. Qed.

(* ---- one top per attribute  =>  the recursive running-intersection predicate ---- *)
Lemma elimt_has_top a : forall t p, In a (elimt p t) -> 1 <= length (tops a p t).
Proof. induction t as [c ks IH] using rt_ind'. intros p H. simpl in H. simpl. rewrite app_length. apply in_app_iff in H. destruct H as [H|H].
  - apply in_flat_map in H. destruct H as [k [Hk Ha]]. rewrite Forall_forall in IH. specialize (IH k Hk (scope c) Ha).
    rewrite list_sum_flat. clear -Hk IH. induction ks as [|k' r IHr]; simpl in *. contradiction. destruct Hk as [->|Hk]. lia. specialize (IHr Hk). lia.
  - apply diff_In in H. destruct H as [H1 H2]. rewrite (proj2 (memb_In a (scope c)) H1), (proj2 (memb_nIn a p) H2). simpl. lia. Qed.

Definition one_top (p : list nat) (t : rt) : Prop := forall a, length (tops a p t) + b2n (memb a p && memb a (vars t)) <= 1.

Lemma one_top_kids p c ks : one_top p (Node c ks) -> forall a, list_sum (map (fun k => length (tops a (scope c) k)) ks) <= 1 /\
  (In a (scope c) -> list_sum (map (fun k => length (tops a (scope c) k)) ks) = 0).
Proof. intros H a. specialize (H a). simpl in H. rewrite app_length, list_sum_flat in H. split. lia.
  intros I. assert (M : memb a (scope c) = true) by now apply memb_In. rewrite M in H. simpl in H.
  assert (V : memb a (vars (Node c ks)) = true). { apply memb_In. unfold BP.vars. simpl. apply in_app_iff. now left. }
  rewrite V in H. destruct (memb a p); simpl in H; lia. Qed.

Lemma one_top_inherit p c ks k : one_top p (Node c ks) -> In k ks -> one_top (scope c) k.
Proof. intros H Hk a. destruct (one_top_kids p c ks H a) as [L Z].
  assert (Lk : length (tops a (scope c) k) <= list_sum (map (fun k => length (tops a (scope c) k)) ks)).
  { clear -Hk. induction ks as [|k' r IH]; simpl in *. contradiction. destruct Hk as [->|Hk]. lia. specialize (IH Hk). lia. }
  destruct (memb a (scope c)) eqn:M; simpl. 2: lia. apply memb_In in M. specialize (Z M). destruct (memb a (vars k)); simpl; lia. Qed.

Theorem one_top_good : forall t p, one_top p t -> good t.
Proof. induction t as [c ks IH] using rt_ind'. intros p H. simpl.
  assert (K : forall a, list_sum (map (fun k => length (tops a (scope c) k)) ks) <= 1 /\
                        (In a (scope c) -> list_sum (map (fun k => length (tops a (scope c) k)) ks) = 0)) by (intro a; apply (one_top_kids p c ks H a)).
  assert (G : forall k, In k ks -> good k).
  { intros k Hk. rewrite Forall_forall in IH. apply (IH k Hk (scope c)). eapply one_top_inherit; eauto. }
  clear IH H. induction ks as [|k r IHr]; [exact I|].
  split; [apply G; now left|]. split; [|split].
  - intros a Ha. pose proof (elimt_has_top a k (scope c) Ha) as T. destruct (K a) as [L Z]. simpl in L, Z. split.
    + intros I. specialize (Z I). lia.
    + intros k' Hk' V. assert (NS : ~ In a (scope c)) by (intros I; specialize (Z I); lia).
      pose proof (occurs_has_top a k' (scope c) V NS) as T'.
      assert (length (tops a (scope c) k') <= list_sum (map (fun k0 => length (tops a (scope c) k0)) r)).
      { clear -Hk'. induction r as [|x r IH]; simpl in *. contradiction. destruct Hk' as [->|Hk']. lia. specialize (IH Hk'). lia. }
      lia.
  - intros k' a Hk' Ha V. pose proof (elimt_has_top a k' (scope c) Ha) as T'. destruct (K a) as [L Z]. simpl in L, Z.
    assert (NS : ~ In a (scope c)).
    { intros I. specialize (Z I).
      assert (length (tops a (scope c) k') <= list_sum (map (fun k0 => length (tops a (scope c) k0)) r)).
      { clear -Hk'. induction r as [|x r IH]; simpl in *. contradiction. destruct Hk' as [->|Hk']. lia. specialize (IH Hk'). lia. } lia. }
    pose proof (occurs_has_top a k (scope c) V NS) as T.
    assert (length (tops a (scope c) k') <= list_sum (map (fun k0 => length (tops a (scope c) k0)) r)).
    { clear -Hk'. induction r as [|x r IH]; simpl in *. contradiction. destruct Hk' as [->|Hk']. lia. specialize (IH Hk'). lia. }
    lia.
  - apply IHr. intros a. destruct (K a) as [L Z]. simpl in L, Z. split. lia. intros I. specialize (Z I). lia.
    intros k' Hk'. apply G. now right. Qed.

Theorem single_tops_good D t : wfs D t -> (forall a, In a D -> length (tops a [] t) <= 1) -> good t.
Proof. intros W H. apply (one_top_good t []). intros a. simpl. rewrite Nat.add_0_r.
  destruct (in_dec Nat.eq_dec a D) as [I|I]. now apply H.
  pose proof (tops_le_cnt a t []). destruct (Nat.eq_dec (cnt a t) 0) as [Z|Z]. lia.
  exfalso. apply I. assert (V : In a (vars t)) by (apply cnt_vars; lia). clear -V W. revert W V.
  induction t as [c ks IH] using rt_ind'. intros W V. pose proof (wfs_kids D c ks W) as WK. destruct W as [_ [IS _]].
  unfold BP.vars in V. simpl in V. apply in_app_iff in V. destruct V as [V|V]. now apply IS.
  apply in_flat_map in V. destruct V as [n [Hn Ha]]. apply in_flat_map in Hn. destruct Hn as [k [Hk Hn]].
  rewrite Forall_forall in IH, WK. apply (IH k Hk (WK k Hk)). unfold BP.vars. apply in_flat_map. exists n. auto. Qed.

(* ---- the theorem behind junction_tree.py:104-123 ---- *)
Theorem max_weight_is_junction_tree D t t' : NoDup D -> wfs D t -> wfs D t' -> (forall a, In a D -> cnt a t = cnt a t') ->
  good t' -> weight [] t' <= weight [] t -> good t.
Proof. intros ND W W' C G' Le. apply (single_tops_good D t W). apply (weight_max_iff_single_tops D t ND W).
  assert (E' : weight [] t' + list_sum (map (fun a => Nat.min 1 (cnt a t')) D) = list_sum (map (fun a => cnt a t') D)).
  { apply (weight_max_iff_single_tops D t' ND W'). intros a _. apply good_single_top. exact G'. }
  pose proof (weight_upper_bound D t ND W) as U.
  assert (E1 : list_sum (map (fun a => cnt a t) D) = list_sum (map (fun a => cnt a t') D)) by (apply list_sum_ext_in; auto).
  assert (E2 : list_sum (map (fun a => Nat.min 1 (cnt a t)) D) = list_sum (map (fun a => Nat.min 1 (cnt a t')) D)).
  { apply list_sum_ext_in. intros a Ha. now rewrite (C a Ha). }
  lia. Qed.

(* trees over the same cliques have the same counts *)
Lemma cnt_nodes a : forall t, cnt a t = length (filter (fun c => memb a (scope c)) (nodes t)).
Proof. induction t as [c ks IH] using rt_ind'. simpl. rewrite Forall_forall in IH.
  assert (E : list_sum (map (cnt a) ks) = length (filter (fun c => memb a (scope c)) (flat_map nodes ks))).
  { clear c. induction ks as [|k r IHr]; simpl; auto. rewrite filter_app, app_length, <- IHr, (IH k); auto. now left. intros; apply IH; now right. }
  rewrite E. destruct (memb a (scope c)); simpl; lia. Qed.
Lemma same_nodes_same_cnt t t' : Permutation (nodes t) (nodes t') -> forall a, cnt a t = cnt a t'.
Proof. intros P a. rewrite !cnt_nodes. apply Permutation_length. clear -P. induction P; simpl; auto.
  - destruct (memb a (scope x)); auto.
  - destruct (memb a (scope x)), (memb a (scope y)); auto. apply perm_swap.
  - eapply perm_trans; eauto. Qed.
End Weight.
