#!/usr/bin/env python3
"""Fail-closed translator from the pure-Python class subset used by src/mbi/domain.py to Gallina.

usage: py2gallina_list.py <source.py> <out.v> <spec-name>

The class becomes a Record; every listed method becomes a Gallina function in the option monad
(None = the Python code raises).  The only information not taken from the source is the SPEC table below:
the *kinds* of fields and parameters (Python has no annotations here) and which string constants are
enumeration tags.  Everything else - which fields are read, which comprehension filters on what, the order
of concatenations, which helper methods are called with which arguments - comes from the AST, so an edit to
the source changes the generated definitions and the theorems in Proofs/DomainGenP.v are re-checked
against it (or break).

Kinds:  atom (one attribute name = nat id) | nat | bool | list (tuple/list of nat) | dict (attr -> nat) |
        obj (instance of the class) | strlist (a str or a list: nat + list nat) | optstrlist (None or strlist) | enum

Supported statements: docstring; assert c[, msg]; self.f = e (constructor only); x = e; return e;
  `if type(x) is str: x = [x]`; `if x == None: return e` (first statement, x the only parameter - the
  rest of the body is the non-None case); if/elif chains that assign one and the same variable.
Supported expressions: names, self.f / o.f, d[k], tuple()/list() of a list or of a generator, dict(zip(a,b)), len,
  reduce(lambda x,y: <arith>, l, init), sorted(l), sorted(l, key=self.m), l.index(a), the constructor, calls of
  already translated methods (also as bound method `self.m` in key=), + on lists, * + on nat, == on lists / enums,
  in / not in, set(a) <= set(b), and/or/not, comprehensions with one `for` and at most one `if`, int and tag constants.
Anything else aborts with the offending node printed; the check then reports the broken obligation."""
import ast, sys


class Unsupported(Exception):
    pass


def fail(node, why):
    raise Unsupported('%s: line %s: %s' % (why, getattr(node, 'lineno', '?'), ast.dump(node)[:300]))


SPECS = {
    'domain': dict(
        cls='Domain', module='DomainGen',
        fields=[('attrs', 'list'), ('shape', 'list'), ('config', 'dict')],
        tags={'size': 0, 'name': 1},
        methods=[
            ('__init__', [('attrs', 'list'), ('shape', 'list')]),
            ('project', [('attrs', 'strlist')]),
            ('marginalize', [('attrs', 'list')]),
            ('axes', [('attrs', 'list')]),
            ('transpose', [('attrs', 'strlist')]),
            ('invert', [('attrs', 'list')]),
            ('merge', [('other', 'obj')]),
            ('contains', [('other', 'obj')]),
            ('size', [('attrs', 'optstrlist')]),
            ('sort', [('how', 'enum')]),
            ('canonical', [('attrs', 'list')]),
            ('__contains__', [('attr', 'atom')]),
            ('__getitem__', [('a', 'atom')]),
            ('__len__', []),
            ('__eq__', [('other', 'obj')]),
        ],
        skipped=['fromdict', '__iter__', '__repr__', '__str__'],   # dict views, iterators, strings: not modelled
    ),
}

COQTY = {'atom': 'nat', 'nat': 'nat', 'bool': 'bool', 'list': 'list nat', 'dict': 'list (nat * nat)',
         'strlist': '(nat + list nat)', 'optstrlist': 'option (nat + list nat)', 'enum': 'nat'}


def coerce(term, have, want, node):
    if have == want or (have in ('atom', 'nat') and want in ('atom', 'nat')):
        return term
    table = {('atom', 'strlist'): '(inl %s)', ('list', 'strlist'): '(inr %s)',
             ('atom', 'optstrlist'): '(Some (inl %s))', ('list', 'optstrlist'): '(Some (inr %s))',
             ('strlist', 'optstrlist'): '(Some %s)'}
    if (have, want) in table:
        return table[(have, want)] % term
    fail(node, 'cannot pass a %s where a %s is expected' % (have, want))


class Cls:
    def __init__(self, spec, classdef):
        self.spec = spec
        self.cd = classdef
        self.fields = dict(spec['fields'])
        self.done = {}     # method name -> dict(partial, ret kind, params)
        self.out = []
        self.fresh = 0

    def coqty(self, k):
        return self.spec['cls'] if k == 'obj' else COQTY[k]

    def mname(self, n):
        return {'__init__': 'init', '__contains__': 'dunder_contains', '__getitem__': 'dunder_getitem',
                '__len__': 'dunder_len', '__eq__': 'dunder_eq'}.get(n, n)

    # ---------- expressions: returns (term, partial, kind) ----------
    def seq(self, parts, build):
        """parts: list of (term, partial); build: function from list of pure terms to (term, partial)."""
        names, binds = [], []
        for t, p in parts:
            if p:
                self.fresh += 1
                n = 't%d' % self.fresh
                binds.append((n, t)); names.append(n)
            else:
                names.append(t)
        body, bp = build(names)
        if not binds:
            return body, bp
        if not bp:
            body = '(Some %s)' % body
        for n, t in reversed(binds):
            body = '(bind %s (fun %s => %s))' % (t, n, body)
        return body, True

    def ex(self, e, env):
        if isinstance(e, ast.Constant):
            if isinstance(e.value, bool) or e.value is None:
                fail(e, 'unsupported constant')
            if isinstance(e.value, int) and e.value >= 0:
                return str(e.value), False, 'nat'
            if isinstance(e.value, str) and e.value in self.spec['tags']:
                return str(self.spec['tags'][e.value]), False, 'enum'
            fail(e, 'unsupported constant')
        if isinstance(e, ast.Name):
            if e.id not in env:
                fail(e, 'unknown name')
            return 'v_' + e.id, False, env[e.id]
        if isinstance(e, ast.Attribute):
            if isinstance(e.value, ast.Name) and env.get(e.value.id) == 'obj' and e.attr in self.fields:
                return '(f_%s v_%s)' % (e.attr, e.value.id), False, self.fields[e.attr]
            fail(e, 'unsupported attribute')
        if isinstance(e, ast.Subscript):
            b, bp, bk = self.ex(e.value, env)
            i, ip, ik = self.ex(e.slice, env)
            if bk != 'dict' or ik not in ('atom', 'nat'):
                fail(e, 'only dict[attr] is supported')
            t, p = self.seq([(b, bp), (i, ip)], lambda n: ('(py_getitem %s %s)' % (n[0], n[1]), True))
            return t, p, 'nat'
        if isinstance(e, ast.BinOp):
            a, ap, ak = self.ex(e.left, env)
            b, bp, bk = self.ex(e.right, env)
            if isinstance(e.op, ast.Add) and ak == bk == 'list':
                t, p = self.seq([(a, ap), (b, bp)], lambda n: ('(%s ++ %s)' % (n[0], n[1]), False))
                return t, p, 'list'
            if isinstance(e.op, (ast.Add, ast.Mult)) and ak == bk == 'nat':
                o = '+' if isinstance(e.op, ast.Add) else '*'
                t, p = self.seq([(a, ap), (b, bp)], lambda n: ('(%s %s %s)' % (n[0], o, n[1]), False))
                return t, p, 'nat'
            fail(e, 'unsupported operator')
        if isinstance(e, ast.UnaryOp) and isinstance(e.op, ast.Not):
            a, ap, ak = self.ex(e.operand, env)
            if ak != 'bool':
                fail(e, 'not of a non-boolean')
            t, p = self.seq([(a, ap)], lambda n: ('(negb %s)' % n[0], False))
            return t, p, 'bool'
        if isinstance(e, ast.BoolOp):
            parts = [self.ex(v, env) for v in e.values]
            if any(k != 'bool' for _, _, k in parts):
                fail(e, 'boolean operator on non-booleans')
            if any(p for _, p, _ in parts[1:]):
                fail(e, 'short-circuit over a raising operand')    # evaluation order would matter
            op = 'andb' if isinstance(e.op, ast.And) else 'orb'

            def build(n):
                out = n[0]
                for x in n[1:]:
                    out = '(%s %s %s)' % (op, out, x)
                return out, False
            t, p = self.seq([(a, b) for a, b, _ in parts], build)
            return t, p, 'bool'
        if isinstance(e, ast.Compare):
            if len(e.ops) != 1:
                fail(e, 'chained comparison')
            op, l, r = e.ops[0], e.left, e.comparators[0]
            if isinstance(op, ast.LtE) and all(isinstance(x, ast.Call) and isinstance(x.func, ast.Name) and x.func.id == 'set'
                                               and len(x.args) == 1 and not x.keywords for x in (l, r)):
                a, ap, ak = self.ex(l.args[0], env)
                b, bp, bk = self.ex(r.args[0], env)
                if ak != 'list' or bk != 'list':
                    fail(e, 'set() of a non-list')
                t, p = self.seq([(a, ap), (b, bp)], lambda n: ('(py_subset %s %s)' % (n[0], n[1]), False))
                return t, p, 'bool'
            a, ap, ak = self.ex(l, env)
            b, bp, bk = self.ex(r, env)
            if isinstance(op, (ast.In, ast.NotIn)) and ak in ('atom', 'nat') and bk == 'list':
                f = '(memb %s %s)' if isinstance(op, ast.In) else '(negb (memb %s %s))'
                t, p = self.seq([(a, ap), (b, bp)], lambda n: (f % (n[0], n[1]), False))
                return t, p, 'bool'
            if isinstance(op, ast.Eq) and ak == bk == 'list':
                t, p = self.seq([(a, ap), (b, bp)], lambda n: ('(py_list_eqb %s %s)' % (n[0], n[1]), False))
                return t, p, 'bool'
            if isinstance(op, ast.Eq) and ak == bk and ak in ('enum', 'nat', 'atom'):
                t, p = self.seq([(a, ap), (b, bp)], lambda n: ('(Nat.eqb %s %s)' % (n[0], n[1]), False))
                return t, p, 'bool'
            fail(e, 'unsupported comparison')
        if isinstance(e, (ast.ListComp, ast.GeneratorExp)):
            return self.comp(e, env)
        if isinstance(e, ast.Call):
            return self.call(e, env)
        fail(e, 'unsupported expression')

    def comp(self, e, env):
        if len(e.generators) != 1:
            fail(e, 'nested comprehension')
        g = e.generators[0]
        if not isinstance(g.target, ast.Name) or g.is_async or len(g.ifs) > 1:
            fail(e, 'unsupported comprehension')
        it, itp, itk = self.ex(g.iter, env)
        if itk != 'list':
            fail(e, 'comprehension over a non-list')
        v = g.target.id
        env2 = dict(env); env2[v] = 'atom'

        def build(n):
            src = n[0]
            if g.ifs:
                c, cp, ck = self.ex(g.ifs[0], env2)
                if cp or ck != 'bool':
                    fail(g.ifs[0], 'raising or non-boolean filter')
                src = '(filter (fun v_%s => %s) %s)' % (v, c, src)
            if isinstance(e.elt, ast.Name) and e.elt.id == v:
                return src, False
            b, bp, bk = self.ex(e.elt, env2)
            if bk not in ('atom', 'nat'):
                fail(e.elt, 'comprehension element must be a number/attribute')
            if bp:
                return '(mapM (fun v_%s => %s) %s)' % (v, b, src), True
            return '(map (fun v_%s => %s) %s)' % (v, b, src), False
        t, p = self.seq([(it, itp)], build)
        return t, p, 'list'

    def callm(self, node, recv, m, args, env):
        """method m of the class applied to receiver term recv (pure) and argument expressions."""
        if m not in self.done:
            fail(node, 'call of a method that is not (yet) translated: %s' % m)
        info = self.done[m]
        if len(args) == 0 and info.get('none_variant'):
            nv = info['none_variant']
            return '(%s %s)' % (nv['name'], recv), nv['partial'], nv['ret']
        if len(args) != len(info['params']):
            fail(node, 'wrong number of arguments for %s' % m)
        parts = [self.ex(a, env) for a in args]

        def build(n):
            cs = [coerce(n[i], parts[i][2], info['params'][i][1], node) for i in range(len(n))]
            return '(%s)' % ' '.join([self.mname(m), recv] + cs), info['partial']
        t, p = self.seq([(a, b) for a, b, _ in parts], build)
        return t, p, info['ret']

    def call(self, e, env):
        f = e.func
        if isinstance(f, ast.Name):
            if f.id in ('tuple', 'list') and len(e.args) == 1 and not e.keywords:
                t, p, k = self.ex(e.args[0], env)
                if k != 'list':
                    fail(e, 'tuple()/list() of a non-list')
                return t, p, 'list'
            if f.id == 'len' and len(e.args) == 1 and not e.keywords:
                t, p, k = self.ex(e.args[0], env)
                if k != 'list':
                    fail(e, 'len of a non-list')
                t, p = self.seq([(t, p)], lambda n: ('(length %s)' % n[0], False))
                return t, p, 'nat'
            if f.id == 'dict' and len(e.args) == 1 and not e.keywords and isinstance(e.args[0], ast.Call) \
                    and isinstance(e.args[0].func, ast.Name) and e.args[0].func.id == 'zip' and len(e.args[0].args) == 2:
                a, ap, ak = self.ex(e.args[0].args[0], env)
                b, bp, bk = self.ex(e.args[0].args[1], env)
                if ak != 'list' or bk != 'list':
                    fail(e, 'zip of non-lists')
                t, p = self.seq([(a, ap), (b, bp)], lambda n: ('(py_zipdict %s %s)' % (n[0], n[1]), False))
                return t, p, 'dict'
            if f.id == 'reduce' and len(e.args) == 3 and not e.keywords and isinstance(e.args[0], ast.Lambda):
                lam = e.args[0]
                if len(lam.args.args) != 2 or lam.args.defaults or lam.args.vararg or lam.args.kwarg:
                    fail(e, 'unsupported lambda')
                x, y = lam.args.args[0].arg, lam.args.args[1].arg
                env2 = dict(env); env2[x] = 'nat'; env2[y] = 'nat'
                body, bp, bk = self.ex(lam.body, env2)
                if bp or bk != 'nat':
                    fail(e, 'unsupported lambda body')
                l, lp, lk = self.ex(e.args[1], env)
                i, ip, ik = self.ex(e.args[2], env)
                if lk != 'list' or ik != 'nat':
                    fail(e, 'reduce over a non-list')
                t, p = self.seq([(l, lp), (i, ip)], lambda n: ('(fold_left (fun v_%s v_%s => %s) %s %s)' % (x, y, body, n[0], n[1]), False))
                return t, p, 'nat'
            if f.id == 'sorted' and len(e.args) == 1:
                l, lp, lk = self.ex(e.args[0], env)
                if lk != 'list':
                    fail(e, 'sorted of a non-list')
                if not e.keywords:
                    t, p = self.seq([(l, lp)], lambda n: ('(py_sorted_keys %s %s)' % (n[0], n[0]), False))
                    return t, p, 'list'
                if len(e.keywords) == 1 and e.keywords[0].arg == 'key':
                    kf = e.keywords[0].value
                    if isinstance(kf, ast.Attribute) and isinstance(kf.value, ast.Name) and env.get(kf.value.id) == 'obj':
                        arg = ast.Name(id='keyarg_', ctx=ast.Load())
                        env2 = dict(env); env2['keyarg_'] = 'atom'
                        kt, kp, kk = self.callm(e, 'v_' + kf.value.id, kf.attr, [arg], env2)
                        if kk != 'nat':
                            fail(e, 'sort key must be a number')

                        def build(n):
                            if kp:
                                return '(bind (mapM (fun v_keyarg_ => %s) %s) (fun ks => Some (py_sorted_keys ks %s)))' % (kt, n[0], n[0]), True
                            return '(py_sorted_keys (map (fun v_keyarg_ => %s) %s) %s)' % (kt, n[0], n[0]), False
                        t, p = self.seq([(l, lp)], build)
                        return t, p, 'list'
                fail(e, 'unsupported sorted(...)')
            if f.id == self.spec['cls'] and not e.keywords:
                return self.callm_ctor(e, env)
            fail(e, 'unsupported call')
        if isinstance(f, ast.Attribute):
            if e.keywords:
                fail(e, 'keyword arguments')
            if f.attr == 'index' and len(e.args) == 1:
                l, lp, lk = self.ex(f.value, env)
                a, ap, ak = self.ex(e.args[0], env)
                if lk != 'list' or ak not in ('atom', 'nat'):
                    fail(e, 'index on a non-list')
                t, p = self.seq([(l, lp), (a, ap)], lambda n: ('(py_index %s %s)' % (n[1], n[0]), True))
                return t, p, 'nat'
            r, rp, rk = self.ex(f.value, env)
            if rk == 'obj':
                box = {}

                def build(n):
                    t, p, k = self.callm(e, n[0], f.attr, e.args, env)
                    box['k'] = k
                    return t, p
                t, p = self.seq([(r, rp)], build)
                return t, p, box['k']
            fail(e, 'unsupported method call')
        fail(e, 'unsupported call')

    def callm_ctor(self, e, env):
        info = self.done.get('__init__')
        if not info:
            fail(e, 'constructor not translated')
        if len(e.args) != len(info['params']):
            fail(e, 'constructor arity')
        parts = [self.ex(a, env) for a in e.args]

        def build(n):
            cs = [coerce(n[i], parts[i][2], info['params'][i][1], e) for i in range(len(n))]
            return '(init %s)' % ' '.join(cs), info['partial']
        t, p = self.seq([(a, b) for a, b, _ in parts], build)
        return t, p, 'obj'

    # ---------- statements: returns (term of type option T, ret kind) ----------
    def block(self, stmts, env, ctor_fields=None):
        if not stmts:
            if ctor_fields is not None:
                missing = [f for f, _ in self.spec['fields'] if f not in ctor_fields]
                if missing:
                    raise Unsupported('constructor does not set %s' % missing)
                return '(Some (mk%s %s))' % (self.spec['cls'], ' '.join(ctor_fields[f] for f, _ in self.spec['fields'])), 'obj'
            raise Unsupported('function body falls off the end (returns None)')
        s, rest = stmts[0], stmts[1:]
        if isinstance(s, ast.Expr) and isinstance(s.value, ast.Constant) and isinstance(s.value.value, str):
            return self.block(rest, env, ctor_fields)
        if isinstance(s, ast.Assert):
            c, cp, ck = self.ex(s.test, env)
            if ck != 'bool':
                fail(s, 'assert of a non-boolean')
            r, rk = self.block(rest, env, ctor_fields)
            t, _ = self.seq([(c, cp)], lambda n: ('(if %s then %s else None)' % (n[0], r), True))
            return t, rk
        if isinstance(s, ast.Return):
            if s.value is None or ctor_fields is not None:
                fail(s, 'unsupported return')
            t, p, k = self.ex(s.value, env)
            return (t if p else '(Some %s)' % t), k
        if isinstance(s, ast.Assign) and len(s.targets) == 1:
            tg = s.targets[0]
            if ctor_fields is not None and isinstance(tg, ast.Attribute) and isinstance(tg.value, ast.Name) and tg.value.id == 'self':
                if tg.attr not in self.fields:
                    fail(s, 'unknown field')
                t, p, k = self.ex(s.value, env)
                if k != self.fields[tg.attr]:
                    fail(s, 'field %s expects %s, got %s' % (tg.attr, self.fields[tg.attr], k))
                self.fresh += 1
                n = 'fld%d' % self.fresh
                cf = dict(ctor_fields); cf[tg.attr] = n
                r, rk = self.block(rest, env, cf)
                if p:
                    return '(bind %s (fun %s => %s))' % (t, n, r), rk
                return '(let %s := %s in %s)' % (n, t, r), rk
            if isinstance(tg, ast.Name):
                t, p, k = self.ex(s.value, env)
                env2 = dict(env); env2[tg.id] = k
                r, rk = self.block(rest, env2, ctor_fields)
                if p:
                    return '(bind %s (fun v_%s => %s))' % (t, tg.id, r), rk
                return '(let v_%s := %s in %s)' % (tg.id, t, r), rk
            fail(s, 'unsupported assignment')
        if isinstance(s, ast.If):
            # if type(x) is str: x = [x]
            t = s.test
            if isinstance(t, ast.Compare) and len(t.ops) == 1 and isinstance(t.ops[0], ast.Is) and isinstance(t.left, ast.Call) \
                    and isinstance(t.left.func, ast.Name) and t.left.func.id == 'type' and len(t.left.args) == 1 \
                    and isinstance(t.left.args[0], ast.Name) and isinstance(t.comparators[0], ast.Name) and t.comparators[0].id == 'str':
                x = t.left.args[0].id
                ok = (env.get(x) == 'strlist' and not s.orelse and len(s.body) == 1 and isinstance(s.body[0], ast.Assign)
                      and len(s.body[0].targets) == 1 and isinstance(s.body[0].targets[0], ast.Name) and s.body[0].targets[0].id == x
                      and isinstance(s.body[0].value, ast.List) and len(s.body[0].value.elts) == 1
                      and isinstance(s.body[0].value.elts[0], ast.Name) and s.body[0].value.elts[0].id == x)
                if not ok:
                    fail(s, 'unsupported use of type(x) is str')
                env2 = dict(env); env2[x] = 'list'
                r, rk = self.block(rest, env2, ctor_fields)
                return '(let v_%s := match v_%s with inl s => [s] | inr l => l end in %s)' % (x, x, r), rk
            # if/elif chain assigning one variable
            chain, cur = [], s
            while True:
                if len(cur.body) != 1 or not isinstance(cur.body[0], ast.Assign) or len(cur.body[0].targets) != 1 \
                        or not isinstance(cur.body[0].targets[0], ast.Name):
                    fail(cur, 'unsupported if statement')
                chain.append((cur.test, cur.body[0]))
                if len(cur.orelse) == 1 and isinstance(cur.orelse[0], ast.If):
                    cur = cur.orelse[0]
                elif not cur.orelse:
                    els = None
                    break
                else:
                    fail(cur, 'unsupported else branch')
            var = chain[0][1].targets[0].id
            if any(a.targets[0].id != var for _, a in chain):
                fail(s, 'branches assign different variables')
            term = ('(Some v_%s)' % var) if var in env else 'None'     # no branch taken: old value, or unbound -> raises
            kind = env.get(var)
            for c, a in reversed(chain):
                ct, cp, ck = self.ex(c, env)
                if cp or ck != 'bool':
                    fail(c, 'raising or non-boolean condition')
                vt, vp, vk = self.ex(a.value, env)
                if kind is not None and vk != kind:
                    fail(a, 'branches assign different kinds')
                kind = vk
                term = '(if %s then %s else %s)' % (ct, vt if vp else '(Some %s)' % vt, term)
            env2 = dict(env); env2[var] = kind
            r, rk = self.block(rest, env2, ctor_fields)
            return '(bind %s (fun v_%s => %s))' % (term, var, r), rk
        fail(s, 'unsupported statement')

    def is_none_test(self, s, x):
        return (isinstance(s, ast.If) and isinstance(s.test, ast.Compare) and len(s.test.ops) == 1
                and isinstance(s.test.ops[0], (ast.Eq, ast.Is)) and isinstance(s.test.left, ast.Name) and s.test.left.id == x
                and isinstance(s.test.comparators[0], ast.Constant) and s.test.comparators[0].value is None
                and not s.orelse and len(s.body) == 1 and isinstance(s.body[0], ast.Return))

    def method(self, name, params):
        fds = [n for n in self.cd.body if isinstance(n, ast.FunctionDef) and n.name == name]
        if len(fds) != 1:
            raise Unsupported('method %s: expected exactly one definition, found %d' % (name, len(fds)))
        fd = fds[0]
        a = fd.args
        if a.vararg or a.kwarg or a.kwonlyargs or a.posonlyargs or [x.arg for x in a.args] != ['self'] + [p for p, _ in params]:
            fail(fd, 'signature of %s differs from the specification table' % name)
        if any(not (isinstance(d, ast.Constant) and (d.value is None or d.value in self.spec['tags'])) for d in a.defaults):
            fail(fd, 'unsupported default value')
        if fd.decorator_list:
            fail(fd, 'decorated method')
        env = {'self': 'obj'}
        for p, k in params:
            env[p] = k
        body = [s for s in fd.body if not (isinstance(s, ast.Expr) and isinstance(s.value, ast.Constant) and isinstance(s.value.value, str))]
        cname = self.mname(name)
        sig = ' '.join(['(v_self : %s)' % self.spec['cls']] + ['(v_%s : %s)' % (p, self.coqty(k)) for p, k in params])
        self.fresh = 0
        if name == '__init__':
            sig = ' '.join('(v_%s : %s)' % (p, self.coqty(k)) for p, k in params)
            t, k = self.block(body, env, {})
            self.out.append('Definition init %s : option %s :=\n  %s.' % (sig, self.spec['cls'], t))
            self.done[name] = dict(partial=True, ret='obj', params=params)
            return
        if len(params) == 1 and params[0][1] == 'optstrlist' and body and self.is_none_test(body[0], params[0][0]):
            x = params[0][0]
            env0 = dict(env); del env0[x]
            t0, p0, k0 = self.ex(body[0].body[0].value, env0)
            nv = dict(name=cname + '_None', partial=p0, ret=k0)
            self.out.append('Definition %s (v_self : %s) :=\n  %s.' % (nv['name'], self.spec['cls'], t0))
            # the rest of the body may call the no-argument form (this is the only recursion allowed)
            self.done[name] = dict(partial=True, ret=k0, params=params, none_variant=nv, only_none=True)
            env1 = dict(env); env1[x] = 'strlist'
            t1, k1 = self.block(body[1:], env1)
            if k1 != k0:
                fail(fd, 'the two branches return different kinds')
            self.out.append('Definition %s %s :=\n  match v_%s with\n  | None => %s\n  | Some v_%s => %s\n  end.'
                            % (cname, sig, x, (nv['name'] + ' v_self') if p0 else '(Some (%s v_self))' % nv['name'], x, t1))
            self.done[name] = dict(partial=True, ret=k0, params=params, none_variant=nv)
            return
        t, k = self.block(body, env)
        self.out.append('Definition %s %s :=\n  %s.' % (cname, sig, t))
        self.done[name] = dict(partial=True, ret=k, params=params)


def translate(src, specname):
    spec = SPECS[specname]
    tree = ast.parse(open(src).read())
    cds = [n for n in tree.body if isinstance(n, ast.ClassDef) and n.name == spec['cls']]
    if len(cds) != 1:
        raise Unsupported('class %s not found' % spec['cls'])
    cd = cds[0]
    known = {m for m, _ in spec['methods']} | set(spec['skipped'])
    for n in cd.body:
        if isinstance(n, ast.FunctionDef) and n.name not in known:
            # a new method does not invalidate the model of the others, but it is reported in the header
            spec = dict(spec, unknown=spec.get('unknown', []) + [n.name])
    c = Cls(spec, cd)
    for m, params in spec['methods']:
        c.method(m, params)
    hdr = ['(* GENERATED by translator/py2gallina_list.py from %s - do not edit; regenerated on every check run. *)' % src,
           '(* methods not translated (not modelled): %s%s *)' % (', '.join(spec['skipped']),
                                                                  ('; unknown to the specification table: ' + ', '.join(spec['unknown'])) if spec.get('unknown') else ''),
           'From Coq Require Import List Arith Bool.', 'Import ListNotations.',
           'Require Import PGM.Base.Sums PGM.Base.PyList.', '',
           'Module %s.' % spec['module'],
           'Record %s := mk%s { %s }.' % (spec['cls'], spec['cls'], '; '.join('f_%s : %s' % (f, COQTY[k]) for f, k in spec['fields'])), '']
    return '\n'.join(hdr + c.out + ['', 'End %s.' % spec['module'], ''])


if __name__ == '__main__':
    src, dst, specname = sys.argv[1:4]
    try:
        text = translate(src, specname)
    except Unsupported as ex:
        sys.stderr.write('TRANSLATOR: %s\n' % ex)
        sys.exit(3)
    except SyntaxError as ex:
        sys.stderr.write('TRANSLATOR: source does not parse: %s\n' % ex)
        sys.exit(3)
    open(dst, 'w').write(text)
