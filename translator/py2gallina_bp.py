#!/usr/bin/env python3
"""Fail-closed translator for the log-space factor program GraphicalModel.belief_propagation
(src/mbi/graphical_model.py) into Gallina over the semifield model of log space (DESIGN 3.2).

usage: py2gallina_bp.py <graphical_model.py> <out.v>

What comes from the source: the statements and their order, which dictionary is read / written under which key,
which factor operation is applied to which operands, the membership test that selects the division, the attribute list
handed to logsumexp, the final normalisation loop.  What is fixed by the table below (trusted, DESIGN 0.3):
  * kinds of the names (beliefs / potentials: clique -> factor; messages: (clique, clique) -> factor; logZ flag);
  * cliques are numbered 0 .. ncl-1 in the order of self.cliques, so `self.cliques[0]` is 0, `for cl in self.cliques` /
    `for cl in potentials` enumerate seq 0 ncl, and the domain of the factor stored for clique c is `scope c`;
  * log space -> semifield:  a + b -> product,  a - b -> guarded division (factor.py:161-165),  logsumexp(attrs) -> sum over
    attrs,  logsumexp() -> sum over the factor's whole domain,  + scalar -> scaling,  np.log(x) -> x,  scalar - scalar ->
    division,  exp -> identity,  copy -> identity (the functional model has no aliasing; aliasing is observed by C13/C08).
The generated step / function is proved equal to the hand-written Model/BP.v in Proofs/BPGenP.v, so C01_exact is a theorem
about the definition regenerated from the source on every run.  Anything outside the subset aborts."""
import ast, sys


class Unsupported(Exception):
    pass


def fail(node, why):
    raise Unsupported('%s: line %s: %s' % (why, getattr(node, 'lineno', '?'), ast.dump(node)[:300]))


FUNCS = {
    'belief_propagation': dict(params=[('potentials', 'fdict'), ('logZ', 'flag')], locals={'beliefs': 'fdict', 'messages': 'mdict'}, sumret=True),
    # GraphicalModel.mle: `variables` is the set of attributes seen so far; set order is irrelevant (projection / subtraction are by name)
    'mle': dict(params=[('marginals', 'fdict')], locals={'potentials': 'fdict', 'variables': 'aset'}, sumret=False),
}
KINDS = {}


class Tr:
    def __init__(self, fname='belief_propagation', sumret=True):
        self.n = 0
        self.aux = []
        self.fname = fname
        self.sumret = sumret

    def loopdef(self, pat, item, body, env, loopvars=(), carried=()):
        """emit the loop body as a named definition; returns the term applying it to the captured variables."""
        import re
        self.n += 1
        name = '%s_loop%d' % (self.fname, self.n)
        caps = [n for n, k in env.items() if not n.startswith('dom:') and n not in loopvars and n not in carried and k in ('scalar', 'factor', 'attrs', 'clique', 'fdict', 'mdict', 'aset') and re.search(r'\bv_%s\b' % re.escape(n), body)]
        ty = {'scalar': 'car R', 'factor': '@trie R', 'attrs': 'list nat', 'clique': 'nat', 'fdict': 'list (@trie R)', 'mdict': 'list ((nat * nat) * @trie R)', 'aset': 'list nat'}
        params = ''.join(' (v_%s : %s)' % (n, ty[env[n]]) for n in caps)
        if re.search(r'\btotal\b', body):
            params = ' (total : car R)' + params
            app = ' total'
        else:
            app = ''
        self.aux.append("Definition %s%s :=\n  fun %s %s =>\n  %s." % (name, params, pat, item, body))
        return '(%s%s%s)' % (name, app, ''.join(' v_' + n for n in caps))

    # ---- expressions: returns (term, kind, dom) ; dom = Gallina term for the attribute list of a factor (or None)
    def key(self, e, env):
        """dictionary key: a clique variable or a pair of clique variables."""
        if isinstance(e, ast.Name) and env.get(e.id) == 'clique':
            return 'v_' + e.id, 'clique'
        if isinstance(e, ast.Tuple) and len(e.elts) == 2 and all(isinstance(x, ast.Name) and env.get(x.id) == 'clique' for x in e.elts):
            return '(v_%s, v_%s)' % (e.elts[0].id, e.elts[1].id), 'pair'
        fail(e, 'unsupported dictionary key')

    def ex(self, e, env):
        if isinstance(e, ast.Name):
            k = env.get(e.id)
            if k in ('factor', 'scalar', 'attrs'):
                return 'v_' + e.id, k, env.get('dom:' + e.id)
            fail(e, 'name of unsupported kind %s' % k)
        if isinstance(e, ast.Subscript):
            if isinstance(e.value, ast.Name) and env.get(e.value.id) in ('fdict', 'mdict'):
                kt, kk = self.key(e.slice, env)
                if env[e.value.id] == 'fdict' and kk == 'clique':
                    return '(py_get v_%s %s)' % (e.value.id, kt), 'factor', '(scope %s)' % kt
                if env[e.value.id] == 'mdict' and kk == 'pair':
                    return '(py_getm v_%s %s)' % (e.value.id, kt), 'factor', None
                fail(e, 'dictionary indexed with the wrong kind of key')
            if isinstance(e.value, ast.Attribute) and isinstance(e.value.value, ast.Name) and e.value.value.id == 'self' and e.value.attr == 'sep_axes':
                kt, kk = self.key(e.slice, env)
                if kk != 'pair':
                    fail(e, 'sep_axes indexed by a non-pair')
                i, j = e.slice.elts[0].id, e.slice.elts[1].id
                return '(sep_axes v_%s v_%s)' % (i, j), 'attrs', None
            if isinstance(e.value, ast.Attribute) and isinstance(e.value.value, ast.Name) and e.value.value.id == 'self' and e.value.attr == 'cliques' \
                    and isinstance(e.slice, ast.Constant) and e.slice.value == 0:
                return '0', 'clique', None
            fail(e, 'unsupported subscript')
        if isinstance(e, ast.BinOp) and isinstance(e.op, (ast.Add, ast.Sub)):
            a, ak, ad = self.ex(e.left, env)
            b, bk, bd = self.ex(e.right, env)
            if ak == bk == 'factor':
                return '(%s %s %s)' % ('f_add' if isinstance(e.op, ast.Add) else 'f_sub', a, b), 'factor', ad
            if ak == bk == 'scalar' and isinstance(e.op, ast.Sub):
                return '(s_sub %s %s)' % (a, b), 'scalar', None
            if ak == 'factor' and bk == 'scalar' and isinstance(e.op, ast.Add):
                return '(f_scale %s %s)' % (a, b), 'factor', ad
            fail(e, 'unsupported operands')
        if isinstance(e, ast.Call):
            f = e.func
            if isinstance(f, ast.Attribute) and isinstance(f.value, ast.Name) and f.value.id == 'np' and f.attr == 'log' and len(e.args) == 1 and not e.keywords:
                a = e.args[0]
                if isinstance(a, ast.Attribute) and isinstance(a.value, ast.Name) and a.value.id == 'self' and a.attr == 'total':
                    return '(s_log total)', 'scalar', None
                fail(e, 'np.log of something other than self.total')
            if isinstance(f, ast.Name) and f.id == 'tuple' and len(e.args) == 1 and not e.keywords and isinstance(e.args[0], ast.BinOp) and isinstance(e.args[0].op, ast.BitAnd):
                l, r = e.args[0].left, e.args[0].right
                if isinstance(l, ast.Name) and env.get(l.id) == 'aset' and isinstance(r, ast.Call) and isinstance(r.func, ast.Name) and r.func.id == 'set' \
                        and len(r.args) == 1 and isinstance(r.args[0], ast.Name) and env.get(r.args[0].id) == 'clique':
                    return '(py_inter (scope v_%s) v_%s)' % (r.args[0].id, l.id), 'attrs', None
                fail(e, 'unsupported set intersection')
            if isinstance(f, ast.Name) and f.id == 'CliqueVector' and len(e.args) == 1 and not e.keywords and isinstance(e.args[0], ast.Name) and env.get(e.args[0].id) == 'fdict':
                return 'v_' + e.args[0].id, 'fdict', None
            if isinstance(f, ast.Attribute):
                # x.domain.invert(attrs)
                if f.attr == 'invert' and isinstance(f.value, ast.Attribute) and f.value.attr == 'domain' and len(e.args) == 1 and not e.keywords:
                    x, xk, xd = self.ex(f.value.value, env)
                    a, ak, _ = self.ex(e.args[0], env)
                    if xk != 'factor' or xd is None or ak != 'attrs':
                        fail(e, 'domain.invert on something whose domain is not known')
                    return '(py_invert %s %s)' % (xd, a), 'attrs', None
                x, xk, xd = self.ex(f.value, env)
                if xk != 'factor':
                    fail(e, 'method call on a non-factor')
                if f.attr == 'log' and not e.args and not e.keywords:
                    return '(f_log %s)' % x, 'factor', xd
                if f.attr == 'project' and len(e.args) == 1 and not e.keywords:
                    a, ak, _ = self.ex(e.args[0], env)
                    if ak != 'attrs' or xd is None:
                        fail(e, 'project onto a non-attribute-list / of a factor whose domain is not known')
                    return '(f_project %s %s %s)' % (x, xd, a), 'factor', a
                if f.attr == 'copy' and not e.args and not e.keywords:
                    return '(f_copy %s)' % x, 'factor', xd
                if f.attr == 'logsumexp' and not e.keywords and len(e.args) == 1:
                    a, ak, _ = self.ex(e.args[0], env)
                    if ak != 'attrs':
                        fail(e, 'logsumexp over a non-attribute-list')
                    return '(f_logsumexp %s %s)' % (x, a), 'factor', None
                if f.attr == 'logsumexp' and not e.keywords and not e.args:
                    if xd is None:
                        fail(e, 'logsumexp() of a factor whose domain is not known')
                    return '(f_logsumexp_all %s %s)' % (x, xd), 'scalar', None
                if f.attr == 'exp' and not e.args and all(k.arg == 'out' for k in e.keywords):
                    return '(f_exp %s)' % x, 'factor', xd
            fail(e, 'unsupported call')
        fail(e, 'unsupported expression')

    def test(self, c, env):
        if isinstance(c, ast.Compare) and len(c.ops) == 1 and isinstance(c.ops[0], ast.In) and isinstance(c.comparators[0], ast.Name) \
                and env.get(c.comparators[0].id) == 'mdict':
            kt, kk = self.key(c.left, env)
            if kk != 'pair':
                fail(c, 'membership of a non-pair')
            return '(py_haskey %s v_%s)' % (kt, c.comparators[0].id)
        fail(c, 'unsupported test')

    # ---- statements ----
    def assigned(self, stmts):
        out = []
        for s in stmts:
            if isinstance(s, ast.Assign) and len(s.targets) == 1:
                t = s.targets[0]
                n = t.id if isinstance(t, ast.Name) else (t.value.id if isinstance(t, ast.Subscript) and isinstance(t.value, ast.Name) else None)
                if n is None:
                    fail(s, 'unsupported assignment target')
                if n not in out: out.append(n)
            elif isinstance(s, ast.AugAssign):
                t = s.target
                n = t.id if isinstance(t, ast.Name) else (t.value.id if isinstance(t, ast.Subscript) and isinstance(t.value, ast.Name) else None)
                if n is None:
                    fail(s, 'unsupported assignment target')
                if n not in out: out.append(n)
            elif isinstance(s, ast.If):
                for n in self.assigned(s.body) + self.assigned(s.orelse):
                    if n not in out: out.append(n)
            elif isinstance(s, ast.For):
                for n in self.assigned(s.body):
                    if n not in out: out.append(n)
            elif isinstance(s, ast.Expr) and isinstance(s.value, ast.Call) and isinstance(s.value.func, ast.Attribute) and s.value.func.attr == 'update' \
                    and isinstance(s.value.func.value, ast.Name):
                if s.value.func.value.id not in out: out.append(s.value.func.value.id)
            elif isinstance(s, (ast.Return, ast.Expr)):
                pass
            else:
                fail(s, 'unsupported statement')
        return out

    def store(self, target, term, kind, dom, env, rest_fn):
        """bind the result of an assignment and continue."""
        if isinstance(target, ast.Name):
            env2 = dict(env); env2[target.id] = kind
            if dom is not None: env2['dom:' + target.id] = dom
            else: env2.pop('dom:' + target.id, None)
            return '(let v_%s := %s in\n  %s)' % (target.id, term, rest_fn(env2))
        if isinstance(target, ast.Subscript) and isinstance(target.value, ast.Name) and env.get(target.value.id) in ('fdict', 'mdict') and kind == 'factor':
            kt, kk = self.key(target.slice, env)
            d = target.value.id
            if env[d] == 'fdict' and kk == 'clique':
                return '(let v_%s := py_set v_%s %s %s in\n  %s)' % (d, d, kt, term, rest_fn(env))
            if env[d] == 'mdict' and kk == 'pair':
                return '(let v_%s := py_setm v_%s %s %s in\n  %s)' % (d, d, kt, term, rest_fn(env))
        fail(target, 'unsupported assignment')

    def block(self, stmts, env, tail):
        """tail(env) gives the term that ends the block (a tuple of carried variables, or None when the block must return)."""
        if not stmts:
            if tail is None:
                raise Unsupported('function body falls off the end')
            return tail(env)
        s, rest = stmts[0], stmts[1:]
        cont = lambda env2: self.block(rest, env2, tail)
        if isinstance(s, ast.Expr) and isinstance(s.value, ast.Constant) and isinstance(s.value.value, str):
            return cont(env)
        if isinstance(s, ast.Assign) and len(s.targets) == 1:
            t = s.targets[0]
            if isinstance(s.value, ast.Dict) and not s.value.keys and isinstance(t, ast.Name) and KINDS.get(t.id) == 'mdict':
                env2 = dict(env); env2[t.id] = 'mdict'
                return '(let v_%s := py_empty in\n  %s)' % (t.id, cont(env2))
            if isinstance(s.value, ast.Dict) and not s.value.keys and isinstance(t, ast.Name) and KINDS.get(t.id) == 'fdict':
                env2 = dict(env); env2[t.id] = 'fdict'
                return '(let v_%s := py_emptyf ncl in\n  %s)' % (t.id, cont(env2))
            if isinstance(s.value, ast.Call) and isinstance(s.value.func, ast.Name) and s.value.func.id == 'set' and not s.value.args and not s.value.keywords \
                    and isinstance(t, ast.Name) and KINDS.get(t.id) == 'aset':
                env2 = dict(env); env2[t.id] = 'aset'
                return '(let v_%s := py_emptyset in\n  %s)' % (t.id, cont(env2))
            if isinstance(s.value, ast.DictComp) and isinstance(t, ast.Name) and KINDS.get(t.id) == 'fdict':
                dc = s.value
                g = dc.generators[0]
                if len(dc.generators) != 1 or g.ifs or not isinstance(g.target, ast.Name) or not isinstance(g.iter, ast.Name) or env.get(g.iter.id) != 'fdict' \
                        or not isinstance(dc.key, ast.Name) or dc.key.id != g.target.id:
                    fail(s, 'unsupported dictionary comprehension')
                env2 = dict(env); env2[g.target.id] = 'clique'
                v, vk, _ = self.ex(dc.value, env2)
                if vk != 'factor':
                    fail(s, 'dictionary comprehension value is not a factor')
                env3 = dict(env); env3[t.id] = 'fdict'
                return '(let v_%s := py_dictcomp (fun v_%s => %s) ncl in\n  %s)' % (t.id, g.target.id, v, cont(env3))
            v, vk, vd = self.ex(s.value, env)
            if isinstance(t, ast.Name) and vk == 'clique':
                env2 = dict(env); env2[t.id] = 'clique'
                return '(let v_%s := %s in\n  %s)' % (t.id, v, cont(env2))
            return self.store(t, v, vk, vd, env, cont)
        if isinstance(s, ast.Expr) and isinstance(s.value, ast.Call) and isinstance(s.value.func, ast.Attribute) and s.value.func.attr == 'update' \
                and isinstance(s.value.func.value, ast.Name) and env.get(s.value.func.value.id) == 'aset' and len(s.value.args) == 1 and not s.value.keywords \
                and isinstance(s.value.args[0], ast.Name) and env.get(s.value.args[0].id) == 'clique':
            v = s.value.func.value.id
            return '(let v_%s := py_update v_%s (scope v_%s) in\n  %s)' % (v, v, s.value.args[0].id, cont(env))
        if isinstance(s, ast.AugAssign) and isinstance(s.op, ast.Add):
            cur = ast.BinOp(left=s.target, op=ast.Add(), right=s.value)
            load = ast.parse(ast.unparse(cur), mode='eval').body        # target re-read in Load context
            v, vk, vd = self.ex(load, env)
            return self.store(s.target, v, vk, vd, env, cont)
        if isinstance(s, ast.If):
            if isinstance(s.test, ast.Name) and env.get(s.test.id) == 'flag' and len(s.body) == 1 and isinstance(s.body[0], ast.Return) and not s.orelse:
                v, vk, _ = self.ex(s.body[0].value, env)
                if vk != 'scalar':
                    fail(s, 'flag branch must return a scalar')
                return '(if v_%s then inl %s else\n  %s)' % (s.test.id, v, cont(env))
            # if/else assigning one and the same variable
            if len(s.body) == 1 and len(s.orelse) == 1 and all(isinstance(b, ast.Assign) and len(b.targets) == 1 and isinstance(b.targets[0], ast.Name) for b in (s.body[0], s.orelse[0])) \
                    and s.body[0].targets[0].id == s.orelse[0].targets[0].id:
                c = self.test(s.test, env)
                a, ak, ad = self.ex(s.body[0].value, env)
                b, bk, bd = self.ex(s.orelse[0].value, env)
                if ak != bk:
                    fail(s, 'branches of different kinds')
                return self.store(s.body[0].targets[0], '(if %s then %s else %s)' % (c, a, b), ak, ad if ad == bd else None, env, cont)
            fail(s, 'unsupported if statement')
        if isinstance(s, ast.For) and not s.orelse:
            carried = [n for n in self.assigned(s.body) if n in env and env[n] in ('fdict', 'mdict', 'aset')]
            if not carried:
                fail(s, 'loop without carried dictionaries')
            tup = '(' + ', '.join('v_' + n for n in carried) + ')' if len(carried) > 1 else 'v_' + carried[0]
            pat = "'" + tup if len(carried) > 1 else tup
            if isinstance(s.target, ast.Tuple) and len(s.target.elts) == 2 and all(isinstance(x, ast.Name) for x in s.target.elts) \
                    and isinstance(s.iter, ast.Attribute) and isinstance(s.iter.value, ast.Name) and s.iter.value.id == 'self' and s.iter.attr == 'message_order':
                i, j = s.target.elts[0].id, s.target.elts[1].id
                env2 = dict(env); env2[i] = 'clique'; env2[j] = 'clique'
                body = self.block(s.body, env2, lambda e: tup)
                f = self.loopdef(pat, "'(v_%s, v_%s)" % (i, j), body, env, (i, j), carried)
                return "(let %s := fold_left %s message_order %s in\n  %s)" % (pat, f, tup, cont(env))
            if isinstance(s.target, ast.Name) and isinstance(s.iter, ast.Attribute) and isinstance(s.iter.value, ast.Name) and s.iter.value.id == 'self' and s.iter.attr == 'cliques':
                c = s.target.id
                env2 = dict(env); env2[c] = 'clique'
                body = self.block(s.body, env2, lambda e: tup)
                f = self.loopdef(pat, 'v_%s' % c, body, env, (c,), carried)
                return "(let %s := fold_left %s (seq 0 ncl) %s in\n  %s)" % (pat, f, tup, cont(env))
            fail(s, 'unsupported loop')
        if isinstance(s, ast.Return):
            v, vk, _ = self.ex(s.value, env)
            if vk != 'fdict':
                fail(s, 'final return must be a dictionary of factors')
            return ('inr %s' % v) if self.sumret else v
        fail(s, 'unsupported statement')


def translate(src):
    global KINDS
    tree = ast.parse(open(src).read())
    cls = [n for n in tree.body if isinstance(n, ast.ClassDef) and n.name == 'GraphicalModel']
    if len(cls) != 1:
        raise Unsupported('class GraphicalModel not found')
    out = ['(* GENERATED by translator/py2gallina_bp.py from %s (GraphicalModel.belief_propagation, GraphicalModel.mle) - do not edit; regenerated on every check run. *)' % src,
           'From Coq Require Import List Arith Bool.', 'Import ListNotations.',
           'Require Import PGM.Base.Alg PGM.Base.Sums PGM.Model.BP PGM.Base.PyFactor.', '',
           'Section BPGen.',
           'Variable R : SF.', 'Variable shape : nat -> nat.', 'Variable D : list nat.', 'Variable ncl : nat.',
           'Variable scope : nat -> list nat.', 'Variable sep_axes : nat -> nat -> list nat.',
           'Notation py_get := (@py_get R).', 'Notation py_getm := (@py_getm R).', 'Notation py_haskey := (@py_haskey R).', 'Notation py_set := (@py_set R).',
           'Notation py_setm := (@py_setm R).', 'Notation py_empty := (@py_empty R).', 'Notation py_emptyf := (@py_emptyf R).', 'Notation py_dictcomp := (@py_dictcomp R).',
           'Notation f_add := (@f_add R shape D).', 'Notation f_sub := (@f_sub R shape D).', 'Notation f_scale := (@f_scale R shape D).',
           'Notation f_logsumexp := (@f_logsumexp R shape D).', 'Notation f_logsumexp_all := (@f_logsumexp_all R shape D).', 'Notation f_project := (@f_project R shape D).',
           'Notation f_copy := (@f_copy R).', 'Notation f_exp := (@f_exp R).', 'Notation f_log := (@f_log R).', 'Notation s_log := (@s_log R).', 'Notation s_sub := (@s_sub R).', '']
    for fname, spec in FUNCS.items():
        fds = [n for n in cls[0].body if isinstance(n, ast.FunctionDef) and n.name == fname]
        if len(fds) != 1:
            raise Unsupported('%s: expected exactly one definition' % fname)
        fd = fds[0]
        if [a.arg for a in fd.args.args] != ['self'] + [p for p, _ in spec['params']] or fd.args.vararg or fd.args.kwarg or fd.args.kwonlyargs or fd.decorator_list:
            fail(fd, 'signature of %s differs from the specification table' % fname)
        KINDS = dict(spec['locals']); KINDS.update(dict(spec['params']))
        env = dict(spec['params'])
        tr = Tr(fname, spec['sumret'])
        body = tr.block(fd.body, env, None)
        out += tr.aux
        if fname == 'belief_propagation':
            out += ['Definition belief_propagation (message_order : list (nat * nat)) (total : car R) (v_potentials : list (@trie R)) (v_logZ : bool)',
                    '  : car R + list (@trie R) :=', '  ' + body + '.', '']
        else:
            out += ['Definition %s %s : list (@trie R) :=' % (fname, ' '.join('(v_%s : list (@trie R))' % p for p, k in spec['params'])), '  ' + body + '.', '']
    out += ['End BPGen.', '']
    return '\n'.join(out)


if __name__ == '__main__':
    src, dst = sys.argv[1:3]
    try:
        text = translate(src)
    except Unsupported as ex:
        sys.stderr.write('TRANSLATOR: %s\n' % ex)
        sys.exit(3)
    except (SyntaxError, OSError) as ex:
        sys.stderr.write('TRANSLATOR: source does not parse / is missing: %s\n' % ex)
        sys.exit(3)
    open(dst, 'w').write(text)
