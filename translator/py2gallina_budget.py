#!/usr/bin/env python3
"""Fail-closed extractor of the privacy-budget ARITHMETIC of the four mechanisms into Gallina.

usage: py2gallina_budget.py <mechanisms-dir> <out.v>

For every function listed in SPECS the translator walks the whole body (into if / for / while / with blocks) in
source order and emits one Gallina definition, generic over the numeric signature (Base/Num.v), for
  * every assignment (also augmented, also chained a = b = e) to a TRACKED scalar variable,
  * the scale / epsilon / sensitivity argument of every call of a noise or selection PRIMITIVE,
  * every scalar argument passed to another listed function (budget hand-over),
  * every if / while test that only mentions scalars.
Each definition is a closed formula in its free scalar variables (variables are not inlined): e.g.
    sigma = np.sqrt(rounds / (2*0.9*self.rho))   ->   Definition aim_run_sigma_1 (v_rounds v_rho : T) : T := ...
The control flow (how often a formula is used, with which operands) is NOT translated: it is modelled by hand in
Model/Ledger.v and tied to the code by the two-run recorder; Proofs/BudgetGenP.v proves that the hand model's
arithmetic is exactly these generated formulas, so the ledger theorems are re-checked against the source text.

Fail-closed: an assignment to a tracked variable, or a primitive's budget argument, that cannot be translated
(unknown name, unsupported operator or call) aborts; so does a missing function, a primitive that is never called,
or a tracked variable that is never assigned.  Inputs are names whose defining expression is deliberately opaque
(cdp_rho(...), len(...), loop variables); they are listed per function."""
import ast, sys, os
from fractions import Fraction


class Unsupported(Exception):
    pass


def fail(node, why):
    raise Unsupported('%s: line %s: %s' % (why, getattr(node, 'lineno', '?'), ast.dump(node)[:300]))


# per function: tracked scalars, opaque inputs (python expression text -> variable), boolean inputs,
# primitives (callee text -> list of (label, positional index or keyword)), hand-over calls (callee -> list of argument indexes)
SPECS = [
    dict(name='aim_run', file='aim.py', func='AIM.run',
         tracked=['sigma', 'epsilon', 'rho_used', 'remaining'],
         inputs={'self.rho': 'rho', 'rounds': 'rounds', 'len(oneway)': 'n_oneway'},
         prims={'self.gaussian_noise': [('scale', 0)], 'self.worst_approximated': [('eps', 3)]}, calls={}),
    dict(name='mst_main', file='mst.py', func='MST', tracked=['sigma'], inputs={'rho': 'rho'},
         prims={}, calls={'measure': [2], 'select': [1]}),
    dict(name='mst_measure', file='mst.py', func='measure', tracked=[], inputs={'sigma': 'sigma', 'wgt': 'wgt'},
         prims={'np.random.normal': [('scale', 'scale')]}, calls={}),
    dict(name='mst_select', file='mst.py', func='select', tracked=['epsilon'], inputs={'rho': 'rho', 'r': 'r'},
         prims={'exponential_mechanism': [('eps', 1), ('sens', 'sensitivity')]}, calls={}),
    dict(name='mwem', file='mwem+pgm.py', func='mwem_pgm',
         tracked=['eps_per_round', 'sigma', 'exp_eps', 'marginal_sensitivity', 'rho_per_round'],
         inputs={'epsilon': 'epsilon', 'rounds': 'rounds', 'alpha': 'alpha', 'rho': 'rho'}, bools=['bounded'],
         prims={'np.random.laplace': [('scale', 'scale')], 'np.random.normal': [('scale', 'scale')], 'worst_approximated': [('eps', 3)]}, calls={}),
    dict(name='mwem_select', file='mwem+pgm.py', func='worst_approximated', tracked=['sensitivity'], inputs={'eps': 'eps'}, bools=['bounded'],
         prims={}, calls={}, exprs={'softmax': [0]}, opaque=['errors - errors.max()']),
    dict(name='adagrid', file='adaptive_grid.py', func='adagrid',
         tracked=['rho_step_1', 'rho_step_2', 'rho_step_3', 'step1_sigma', 'step3_sigma'],
         inputs={'rho': 'rho', 'frac_1': 'frac_1', 'frac_2': 'frac_2', 'frac_3': 'frac_3', 'len(step1_all)': 'n_step1', 'len(step2_queries)': 'n_step3'},
         prims={'np.random.normal': [('scale', 'scale')]}, calls={'select': [2]}),
    dict(name='adagrid_select', file='adaptive_grid.py', func='select', tracked=['epsilon'], inputs={'rho': 'rho', 'r': 'r'},
         prims={'exponential_mechanism': [('eps', 1), ('sens', 'sensitivity')]}, calls={}),
]

NPFUN = {'sqrt': 'nsqrt', 'exp': 'nexp', 'log': 'nlog'}
BIN = {ast.Add: 'nadd', ast.Sub: 'nsub', ast.Mult: 'nmul', ast.Div: 'ndiv'}


def lit(v, node):
    if isinstance(v, bool) or not isinstance(v, (int, float)):
        fail(node, 'unsupported constant')
    fr = Fraction(repr(v)) if isinstance(v, float) else Fraction(v)
    if float(fr) != float(v):
        fail(node, 'literal not exactly representable as a short decimal')
    return '(lit O (%d)%%Z %d%%positive)' % (fr.numerator, fr.denominator)


class Fn:
    def __init__(self, spec, fd):
        self.spec, self.fd = spec, fd
        self.known = set(spec['inputs'].values()) | set(spec['tracked'])
        self.bools = set(spec.get('bools', []))
        self.counter = {}
        self.out = []
        self.seen_prims = set()
        self.assigned = set()

    def txt(self, e):
        return ast.unparse(e)

    def expr(self, e, free):
        """scalar expression -> Gallina term; free collects the variables used."""
        t = self.txt(e)
        if t in self.spec['inputs']:
            v = self.spec['inputs'][t]; free.append(v); return 'v_' + v
        if t in self.spec.get('opaque', []):
            free.append('opaque_%d' % self.spec['opaque'].index(t)); return 'v_opaque_%d' % self.spec['opaque'].index(t)
        if isinstance(e, ast.Constant):
            return lit(e.value, e)
        if isinstance(e, ast.Name):
            if e.id in self.spec['tracked']:
                free.append(e.id); return 'v_' + e.id
            fail(e, 'name is neither tracked nor an input')
        if isinstance(e, ast.UnaryOp) and isinstance(e.op, ast.USub):
            return '(nneg O %s)' % self.expr(e.operand, free)
        if isinstance(e, ast.BinOp):
            if isinstance(e.op, ast.Pow):
                if isinstance(e.right, ast.Constant) and e.right.value == 2 and isinstance(e.right.value, int):
                    x = self.expr(e.left, free)
                    return '(nmul O %s %s)' % (x, x)
                fail(e, 'only **2 is supported')
            if type(e.op) in BIN:
                return '(%s O %s %s)' % (BIN[type(e.op)], self.expr(e.left, free), self.expr(e.right, free))
            fail(e, 'unsupported operator')
        if isinstance(e, ast.IfExp):
            if isinstance(e.test, ast.Name) and e.test.id in self.bools:
                free.append('b:' + e.test.id)
                return '(if b_%s then %s else %s)' % (e.test.id, self.expr(e.body, free), self.expr(e.orelse, free))
            fail(e, 'conditional expression on something that is not a declared boolean input')
        if isinstance(e, ast.Call) and not e.keywords and len(e.args) == 1 and isinstance(e.func, ast.Attribute) \
                and isinstance(e.func.value, ast.Name) and e.func.value.id in ('np', 'math') and e.func.attr in NPFUN:
            return '(%s O %s)' % (NPFUN[e.func.attr], self.expr(e.args[0], free))
        fail(e, 'unsupported scalar expression')

    def cond(self, c, free):
        if isinstance(c, ast.Compare) and len(c.ops) == 1:
            a, b = self.expr(c.left, free), self.expr(c.comparators[0], free)
            o = c.ops[0]
            if isinstance(o, ast.Lt): return '(nltb O %s %s)' % (a, b)
            if isinstance(o, ast.Gt): return '(nltb O %s %s)' % (b, a)
            if isinstance(o, ast.LtE): return '(nleb O %s %s)' % (a, b)
            if isinstance(o, ast.GtE): return '(nleb O %s %s)' % (b, a)
        fail(c, 'unsupported condition')

    def emit(self, label, term, free, ty='T', src=None):
        k = self.counter.get(label, 0) + 1
        self.counter[label] = k
        seen, params = set(), []
        for v in free:
            if v in seen:
                continue
            seen.add(v)
            params.append('(b_%s : bool)' % v[2:] if v.startswith('b:') else '(v_%s : T)' % v)
        self.out.append('(* %s *)\nDefinition %s_%s_%d %s : %s :=\n  %s.' % ((src or '').replace('*)', '* )'), self.spec['name'], label, k, ' '.join(params), ty, term))

    def walk(self, stmts):
        for s in stmts:
            if isinstance(s, (ast.Assign, ast.AugAssign)):
                targets = s.targets if isinstance(s, ast.Assign) else [s.target]
                names = [t.id for t in targets if isinstance(t, ast.Name)]
                hit = [n for n in names if n in self.spec['tracked']]
                if hit:
                    if len(names) != len(targets):
                        fail(s, 'tracked variable assigned together with a non-name target')
                    free = []
                    rhs = self.expr(s.value, free)
                    for n in hit:
                        if isinstance(s, ast.AugAssign):
                            if type(s.op) not in BIN:
                                fail(s, 'unsupported augmented assignment')
                            f2 = [n] + free
                            self.emit(n, '(%s O v_%s %s)' % (BIN[type(s.op)], n, rhs), f2, src=self.txt(s))
                        else:
                            self.emit(n, rhs, list(free), src=self.txt(s))
                        self.assigned.add(n)
                else:
                    for t in targets:
                        for sub in ast.walk(t):
                            if isinstance(sub, ast.Name) and sub.id in self.spec['tracked']:
                                fail(s, 'tracked variable assigned through an unsupported target')
                self.calls_in(s.value, s)
            elif isinstance(s, ast.If) or isinstance(s, ast.While):
                try:
                    free = []
                    c = self.cond(s.test, free)
                    self.emit('cond', c, free, 'bool', src=self.txt(s.test))
                except Unsupported:
                    pass      # a test that is not pure budget arithmetic is control flow the ledger model treats as an oracle decision
                self.calls_in(s.test, s)
                self.walk(s.body); self.walk(s.orelse)
            elif isinstance(s, ast.For):
                self.calls_in(s.iter, s)
                self.walk(s.body); self.walk(s.orelse)
            elif isinstance(s, ast.With):
                self.walk(s.body)
            elif isinstance(s, ast.Try):
                fail(s, 'try block inside a budget function')
            elif isinstance(s, (ast.FunctionDef, ast.ClassDef)):
                continue
            else:
                for sub in ast.iter_child_nodes(s):
                    if isinstance(sub, ast.expr):
                        self.calls_in(sub, s)

    def calls_in(self, e, stmt):
        for c in ast.walk(e):
            if not isinstance(c, ast.Call):
                continue
            name = self.txt(c.func)
            if name in self.spec['prims']:
                self.seen_prims.add(name)
                for label, pos in self.spec['prims'][name]:
                    arg = None
                    if isinstance(pos, int):
                        if pos < len(c.args):
                            arg = c.args[pos]
                        else:
                            fail(c, 'primitive %s called without positional argument %d' % (name, pos))
                    else:
                        kws = [k.value for k in c.keywords if k.arg == pos]
                        if not kws:
                            fail(c, 'primitive %s called without keyword %s' % (name, pos))
                        arg = kws[0]
                    free = []
                    self.emit('%s_%s' % (name.split('.')[-1], label), self.expr(arg, free), free, src=self.txt(c))
            elif name in self.spec.get('calls', {}):
                self.seen_prims.add(name)
                for pos in self.spec['calls'][name]:
                    if pos >= len(c.args):
                        fail(c, 'hand-over call %s without positional argument %d' % (name, pos))
                    free = []
                    self.emit('%s_arg%d' % (name, pos), self.expr(c.args[pos], free), free, src=self.txt(c))
            elif name in self.spec.get('exprs', {}):
                self.seen_prims.add(name)
                for pos in self.spec['exprs'][name]:
                    free = []
                    self.emit('%s_arg%d' % (name, pos), self.expr(c.args[pos], free), free, src=self.txt(c))


def find_func(tree, qual):
    parts = qual.split('.')
    body = tree.body
    node = None
    for p in parts:
        cands = [n for n in body if isinstance(n, (ast.FunctionDef, ast.ClassDef)) and n.name == p]
        if len(cands) != 1:
            raise Unsupported('function %s: expected exactly one definition of %s, found %d' % (qual, p, len(cands)))
        node = cands[0]
        body = node.body
    if not isinstance(node, ast.FunctionDef):
        raise Unsupported('%s is not a function' % qual)
    return node


def translate(mdir):
    out = ['(* GENERATED by translator/py2gallina_budget.py from %s/{aim,mst,mwem+pgm,adaptive_grid}.py - do not edit; regenerated on every check run. *)' % mdir,
           'From Coq Require Import ZArith Bool.', 'Require Import PGM.Base.Num.', 'Set Implicit Arguments.', '', 'Section BudgetGen.', 'Variable T : Type.', 'Variable O : NumOps T.', '']
    for spec in SPECS:
        tree = ast.parse(open(os.path.join(mdir, spec['file'])).read())
        fd = find_func(tree, spec['func'])
        f = Fn(spec, fd)
        f.walk(fd.body)
        for n in spec['tracked']:
            if n not in f.assigned:
                raise Unsupported('%s: tracked variable %s is never assigned' % (spec['func'], n))
        for p in list(spec['prims']) + list(spec.get('calls', {})) + list(spec.get('exprs', {})):
            if p not in f.seen_prims:
                raise Unsupported('%s: %s is never called' % (spec['func'], p))
        out.append('(* ---- %s : %s ---- *)' % (spec['file'], spec['func']))
        out += f.out
        out.append('')
    out.append('End BudgetGen.')
    return '\n'.join(out) + '\n'


if __name__ == '__main__':
    mdir, dst = sys.argv[1:3]
    try:
        text = translate(mdir)
    except Unsupported as ex:
        sys.stderr.write('TRANSLATOR: %s\n' % ex)
        sys.exit(3)
    except (SyntaxError, OSError) as ex:
        sys.stderr.write('TRANSLATOR: source does not parse / is missing: %s\n' % ex)
        sys.exit(3)
    open(dst, 'w').write(text)
