#!/usr/bin/env python3
"""Fail-closed translator for JunctionTree.mp_order (src/mbi/junction_tree.py:23-34): the list of messages (both directions of
every tree edge) and the dependency relation between them, as the source builds them.  networkx's DiGraph / topological_sort are
external: the generated definitions are what the graph handed to topological_sort contains; Proofs/MpOrderP.v proves that EVERY
topological order of that graph is a valid message schedule.

usage: py2gallina_mp.py <junction_tree.py> <out.v>

Supported (anything else aborts): `edges = set()`; `messages = [<pair> for a,b in self.tree.edges()] + [...]`; two nested
`for m in messages` loops whose body is one `if <cond>: edges.add((m1, m2))` with cond a conjunction of == / != between m[0] / m[1]
components; `G = nx.DiGraph()`, `G.add_nodes_from(messages)`, `G.add_edges_from(edges)`, `return list(nx.topological_sort(G))`."""
import ast, sys


class Unsupported(Exception):
    pass


def fail(node, why):
    raise Unsupported('%s: line %s: %s' % (why, getattr(node, 'lineno', '?'), ast.dump(node)[:300]))


def pairexpr(e, names):
    if isinstance(e, ast.Tuple) and len(e.elts) == 2 and all(isinstance(x, ast.Name) and x.id in names for x in e.elts):
        return '(v_%s, v_%s)' % (e.elts[0].id, e.elts[1].id)
    fail(e, 'unsupported pair expression')


def comp(e):
    """[(x,y) for a,b in self.tree.edges()] -> map over tree_edges"""
    if not isinstance(e, ast.ListComp) or len(e.generators) != 1:
        fail(e, 'unsupported comprehension')
    g = e.generators[0]
    if g.ifs or not (isinstance(g.target, ast.Tuple) and len(g.target.elts) == 2 and all(isinstance(x, ast.Name) for x in g.target.elts)):
        fail(e, 'unsupported comprehension target')
    it = g.iter
    if not (isinstance(it, ast.Call) and not it.args and not it.keywords and ast.unparse(it.func) == 'self.tree.edges'):
        fail(e, 'comprehension over something other than self.tree.edges()')
    a, b = g.target.elts[0].id, g.target.elts[1].id
    return "(map (fun '(v_%s, v_%s) => %s) tree_edges)" % (a, b, pairexpr(e.elt, (a, b)))


def messages_expr(e):
    if isinstance(e, ast.BinOp) and isinstance(e.op, ast.Add):
        return '(%s ++ %s)' % (messages_expr(e.left), messages_expr(e.right))
    return comp(e)


def component(e, vars_):
    if isinstance(e, ast.Subscript) and isinstance(e.value, ast.Name) and e.value.id in vars_ and isinstance(e.slice, ast.Constant) and e.slice.value in (0, 1):
        return '(%s v_%s)' % ('fst' if e.slice.value == 0 else 'snd', e.value.id)
    fail(e, 'unsupported message component')


def cond(c, vars_):
    if isinstance(c, ast.BoolOp) and isinstance(c.op, ast.And):
        parts = [cond(v, vars_) for v in c.values]
        out = parts[0]
        for p in parts[1:]:
            out = '(andb %s %s)' % (out, p)
        return out
    if isinstance(c, ast.Compare) and len(c.ops) == 1 and isinstance(c.ops[0], (ast.Eq, ast.NotEq)):
        t = '(Nat.eqb %s %s)' % (component(c.left, vars_), component(c.comparators[0], vars_))
        return t if isinstance(c.ops[0], ast.Eq) else '(negb %s)' % t
    fail(c, 'unsupported condition')


def translate(src):
    tree = ast.parse(open(src).read())
    cls = [n for n in tree.body if isinstance(n, ast.ClassDef) and n.name == 'JunctionTree']
    if len(cls) != 1:
        raise Unsupported('class JunctionTree not found')
    fds = [n for n in cls[0].body if isinstance(n, ast.FunctionDef) and n.name == 'mp_order']
    if len(fds) != 1:
        raise Unsupported('mp_order: expected exactly one definition')
    fd = fds[0]
    if [a.arg for a in fd.args.args] != ['self'] or fd.decorator_list:
        fail(fd, 'signature differs')
    body = [s for s in fd.body if not (isinstance(s, ast.Expr) and isinstance(s.value, ast.Constant) and isinstance(s.value.value, str))]
    msgs = deps = None
    seen = dict(edges_init=False, nodes=False, addedges=False, ret=False, digraph=False)
    for s in body:
        t = ast.unparse(s)
        if t == 'edges = set()':
            seen['edges_init'] = True
        elif isinstance(s, ast.Assign) and len(s.targets) == 1 and isinstance(s.targets[0], ast.Name) and s.targets[0].id == 'messages':
            msgs = messages_expr(s.value)
        elif isinstance(s, ast.For) and isinstance(s.target, ast.Name) and isinstance(s.iter, ast.Name) and s.iter.id == 'messages' and not s.orelse:
            if msgs is None or not seen['edges_init'] or deps is not None:
                fail(s, 'loop before its inputs are defined / second loop')
            m1 = s.target.id
            if len(s.body) != 1 or not isinstance(s.body[0], ast.For):
                fail(s, 'unsupported outer loop body')
            s2 = s.body[0]
            if not (isinstance(s2.target, ast.Name) and isinstance(s2.iter, ast.Name) and s2.iter.id == 'messages' and not s2.orelse and len(s2.body) == 1 and isinstance(s2.body[0], ast.If)):
                fail(s2, 'unsupported inner loop')
            m2 = s2.target.id
            iff = s2.body[0]
            if iff.orelse or len(iff.body) != 1 or not isinstance(iff.body[0], ast.Expr):
                fail(iff, 'unsupported conditional')
            call = iff.body[0].value
            if not (isinstance(call, ast.Call) and ast.unparse(call.func) == 'edges.add' and len(call.args) == 1 and not call.keywords):
                fail(iff, 'conditional body is not edges.add(...)')
            deps = "(flat_map (fun v_%s => flat_map (fun v_%s => if %s then [%s] else []) messages) messages)" % (m1, m2, cond(iff.test, (m1, m2)), pairexpr(call.args[0], (m1, m2)))
        elif t == 'G = nx.DiGraph()':
            seen['digraph'] = True
        elif t == 'G.add_nodes_from(messages)':
            seen['nodes'] = True
        elif t == 'G.add_edges_from(edges)':
            seen['addedges'] = True
        elif t == 'return list(nx.topological_sort(G))':
            seen['ret'] = True
        else:
            fail(s, 'unsupported statement')
    if msgs is None or deps is None or not all(seen.values()):
        raise Unsupported('mp_order: missing ' + ', '.join(k for k, v in seen.items() if not v))
    return '\n'.join([
        '(* GENERATED by translator/py2gallina_mp.py from %s (JunctionTree.mp_order) - do not edit; regenerated on every check run. *)' % src,
        'From Coq Require Import List Arith Bool.', 'Import ListNotations.', '',
        '(* the nodes handed to the DiGraph: both directions of every tree edge *)',
        'Definition mp_order_messages (tree_edges : list (nat * nat)) : list (nat * nat) :=', '  %s.' % msgs,
        '(* the edges handed to the DiGraph: (m1, m2) means m1 must be sent before m2 *)',
        'Definition mp_order_edges (messages : list (nat * nat)) : list ((nat * nat) * (nat * nat)) :=', '  %s.' % deps, ''])


if __name__ == '__main__':
    src, dst = sys.argv[1:3]
    try:
        text = translate(src)
    except Unsupported as ex:
        sys.stderr.write('TRANSLATOR: %s\n' % ex)
        sys.exit(3)
    except (SyntaxError, OSError) as ex:
        sys.stderr.write('TRANSLATOR: source does not parse / is missing: %s\n' % ex)
        sys.exit(3)
    open(dst, 'w').write(text)
