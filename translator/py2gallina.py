#!/usr/bin/env python3
"""Fail-closed translator from the scalar Python subset used by mechanisms/cdp2adp.py to Gallina.

usage: py2gallina.py <source.py> <out.v> <func> [<func> ...]

Each listed top-level function becomes
   Definition <f> (a1 ... an : T) : T      -- the body, generic over a NumOps record O
   Definition <f>_pre (a1 ... an : T) : bool -- the conjunction of its leading `assert`s
Supported: assert (leading), `if c: return e` (early return), if/else assigning variables, assignments to
names, `for <i> in range(<positive int literal>)` whose body only assigns/ifs (loop variable unused),
return, + - * / unary -, **2, comparisons (single), math.exp/log/log1p/sqrt, min/max of two arguments,
calls to the other translated functions, int/float literals, names.
Anything else aborts with the offending node printed: the check then reports the broken obligation."""
import ast, sys
from fractions import Fraction


class Unsupported(Exception):
    pass


def fail(node, why):
    raise Unsupported('%s: line %s: %s' % (why, getattr(node, 'lineno', '?'), ast.dump(node)[:200]))


def lit(v, node):
    if isinstance(v, bool) or not isinstance(v, (int, float)):
        fail(node, 'unsupported constant')
    fr = Fraction(repr(v)) if isinstance(v, float) else Fraction(v)
    if float(fr) != float(v):
        fail(node, 'literal not exactly representable as a short decimal')
    return '(lit O (%d)%%Z %d%%positive)' % (fr.numerator, fr.denominator)


BIN = {ast.Add: 'nadd', ast.Sub: 'nsub', ast.Mult: 'nmul', ast.Div: 'ndiv'}
MATH = {'exp': 'nexp', 'log': 'nlog', 'log1p': 'nlog1p', 'sqrt': 'nsqrt'}


class Tr:
    def __init__(self, funcs):
        self.funcs = funcs

    def expr(self, e):
        if isinstance(e, ast.Constant):
            return lit(e.value, e)
        if isinstance(e, ast.Name):
            return 'v_' + e.id
        if isinstance(e, ast.UnaryOp) and isinstance(e.op, ast.USub):
            if isinstance(e.operand, ast.Constant):
                return lit(-e.operand.value, e)
            return '(nneg O %s)' % self.expr(e.operand)
        if isinstance(e, ast.BinOp):
            if isinstance(e.op, ast.Pow):
                if isinstance(e.right, ast.Constant) and e.right.value == 2 and isinstance(e.right.value, int):
                    x = self.expr(e.left)
                    return '(let sq := %s in nmul O sq sq)' % x
                fail(e, 'only **2 is supported')
            if type(e.op) in BIN:
                return '(%s O %s %s)' % (BIN[type(e.op)], self.expr(e.left), self.expr(e.right))
            fail(e, 'unsupported operator')
        if isinstance(e, ast.Call):
            if e.keywords:
                fail(e, 'keyword arguments')
            f = e.func
            if isinstance(f, ast.Attribute) and isinstance(f.value, ast.Name) and f.value.id == 'math' and f.attr in MATH and len(e.args) == 1:
                return '(%s O %s)' % (MATH[f.attr], self.expr(e.args[0]))
            if isinstance(f, ast.Name) and f.id in ('min', 'max') and len(e.args) == 2:
                return '(n%s O %s %s)' % (f.id, self.expr(e.args[0]), self.expr(e.args[1]))
            if isinstance(f, ast.Name) and f.id in self.funcs:
                return '(%s %s)' % (f.id, ' '.join(self.expr(a) for a in e.args))
            fail(e, 'unsupported call')
        fail(e, 'unsupported expression')

    def cond(self, c):
        if isinstance(c, ast.BoolOp):
            op = 'orb' if isinstance(c.op, ast.Or) else 'andb'
            parts = [self.cond(v) for v in c.values]
            out = parts[0]
            for p in parts[1:]:
                out = '(%s %s %s)' % (op, out, p)
            return out
        if isinstance(c, ast.Compare) and len(c.ops) == 1:
            a, b = self.expr(c.left), self.expr(c.comparators[0])
            o = c.ops[0]
            if isinstance(o, ast.Lt): return '(nltb O %s %s)' % (a, b)
            if isinstance(o, ast.Gt): return '(nltb O %s %s)' % (b, a)
            if isinstance(o, ast.LtE): return '(nleb O %s %s)' % (a, b)
            if isinstance(o, ast.GtE): return '(nleb O %s %s)' % (b, a)
            if isinstance(o, ast.Eq): return '(neqb O %s %s)' % (a, b)
        fail(c, 'unsupported condition')

    def assigned(self, stmts):
        out = []
        for s in stmts:
            if isinstance(s, ast.Assign):
                if len(s.targets) != 1 or not isinstance(s.targets[0], ast.Name):
                    fail(s, 'unsupported assignment target')
                if s.targets[0].id not in out:
                    out.append(s.targets[0].id)
            elif isinstance(s, ast.If):
                for v in self.assigned(s.body) + self.assigned(s.orelse):
                    if v not in out:
                        out.append(v)
            elif isinstance(s, ast.For):
                for v in self.assigned(s.body):
                    if v not in out:
                        out.append(v)
            elif isinstance(s, (ast.Return, ast.Expr)):
                pass
            else:
                fail(s, 'unsupported statement')
        return out

    def tup(self, vs):
        return '(' + ', '.join('v_' + v for v in vs) + ')' if len(vs) != 1 else 'v_' + vs[0]

    def pat(self, vs):
        return "'(" + ', '.join('v_' + v for v in vs) + ')' if len(vs) != 1 else 'v_' + vs[0]

    def block(self, stmts, defined, tail):
        """translate statements; `tail` is the expression to finish with (None => a return is required)."""
        if not stmts:
            if tail is None:
                raise Unsupported('function may fall off the end without return')
            return tail
        s, rest = stmts[0], stmts[1:]
        if isinstance(s, ast.Expr) and isinstance(s.value, ast.Constant) and isinstance(s.value.value, str):
            return self.block(rest, defined, tail)
        if isinstance(s, ast.Return):
            if s.value is None:
                fail(s, 'bare return')
            return self.expr(s.value)
        if isinstance(s, ast.Assign):
            v = s.targets[0].id if (len(s.targets) == 1 and isinstance(s.targets[0], ast.Name)) else fail(s, 'assignment target')
            return '(let v_%s := %s in\n  %s)' % (v, self.expr(s.value), self.block(rest, defined | {v}, tail))
        if isinstance(s, ast.If):
            has_ret = any(isinstance(x, ast.Return) for x in ast.walk(ast.Module(body=s.body + s.orelse, type_ignores=[])))
            if has_ret:
                # early-return form: `if c: return e` (no else), or both branches return
                if not s.orelse and len(s.body) == 1 and isinstance(s.body[0], ast.Return):
                    return '(if %s then %s else\n  %s)' % (self.cond(s.test), self.expr(s.body[0].value), self.block(rest, defined, tail))
                fail(s, 'return inside a general if')
            vs = self.assigned([s])
            for v in vs:
                if v not in defined:
                    fail(s, 'variable %s assigned in a branch but not defined before' % v)
            t = self.tup(vs)
            return '(let %s := (if %s then %s else %s) in\n  %s)' % (
                self.pat(vs), self.cond(s.test), self.block(s.body, defined, t), self.block(s.orelse, defined, t),
                self.block(rest, defined, tail))
        if isinstance(s, ast.For):
            it = s.iter
            if not (isinstance(it, ast.Call) and isinstance(it.func, ast.Name) and it.func.id == 'range' and len(it.args) == 1
                    and isinstance(it.args[0], ast.Constant) and isinstance(it.args[0].value, int) and it.args[0].value >= 1
                    and not s.orelse and isinstance(s.target, ast.Name)):
                fail(s, 'only `for i in range(<positive int literal>)` is supported')
            for n in ast.walk(ast.Module(body=s.body, type_ignores=[])):
                if isinstance(n, ast.Name) and n.id == s.target.id:
                    fail(s, 'loop variable is used in the body')
                if isinstance(n, (ast.Return, ast.Break, ast.Continue)):
                    fail(s, 'return/break/continue in a loop')
            vs = self.assigned(s.body)
            init = '(' + ', '.join(('v_' + v) if v in defined else '(lit O 0%Z 1%positive)' for v in vs) + ')' if len(vs) != 1 else (('v_' + vs[0]) if vs[0] in defined else '(lit O 0%Z 1%positive)')
            body = self.block(s.body, defined | set(vs), self.tup(vs))
            return '(let %s := Nat.iter %d (fun st => let %s := st in\n    %s) %s in\n  %s)' % (
                self.pat(vs), it.args[0].value, self.pat(vs), body, init, self.block(rest, defined | set(vs), tail))
        fail(s, 'unsupported statement')

    def function(self, fn):
        if fn.args.vararg or fn.args.kwarg or fn.args.kwonlyargs or fn.args.defaults or fn.decorator_list:
            fail(fn, 'unsupported signature')
        params = [a.arg for a in fn.args.args]
        body = list(fn.body)
        pre = []
        while body and (isinstance(body[0], ast.Assert) or (isinstance(body[0], ast.Expr) and isinstance(body[0].value, ast.Constant))):
            if isinstance(body[0], ast.Assert):
                pre.append(self.cond(body[0].test))
            body.pop(0)
        for n in ast.walk(ast.Module(body=body, type_ignores=[])):
            if isinstance(n, ast.Assert):
                fail(n, 'assert after the first statement')
        ps = ' '.join('v_' + p for p in params)
        prec = 'true'
        for p in pre:
            prec = '(andb %s %s)' % (prec, p) if prec != 'true' else p
        out = 'Definition %s_pre (%s : T) : bool := %s.\n' % (fn.name, ps, prec)
        out += 'Definition %s (%s : T) : T :=\n  %s.\n' % (fn.name, ps, self.block(body, set(params), None))
        return out


def translate(src, funcs):
    tree = ast.parse(src)
    defs = {n.name: n for n in tree.body if isinstance(n, ast.FunctionDef)}
    tr = Tr(funcs)
    out = ['(* GENERATED by translator/py2gallina.py from mechanisms/cdp2adp.py — do not edit. *)',
           'From Coq Require Import ZArith Bool.', 'Require Import PGM.Base.Num.', 'Set Implicit Arguments.',
           'Section Gen.', 'Variable T : Type.', 'Variable O : NumOps T.', '']
    for f in funcs:
        if f not in defs:
            raise Unsupported('function %s not found in the source' % f)
        out.append(tr.function(defs[f]))
    out.append('End Gen.')
    return '\n'.join(out) + '\n'


if __name__ == '__main__':
    src, dst, funcs = sys.argv[1], sys.argv[2], sys.argv[3:]
    try:
        text = translate(open(src).read(), funcs)
    except (Unsupported, SyntaxError) as e:
        sys.stderr.write('py2gallina: %s\n' % e)
        sys.exit(3)
    open(dst, 'w').write(text)
