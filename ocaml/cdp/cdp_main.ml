(* runs the extracted, translated cdp2adp functions on OCaml floats.
   input lines:  delta <rho> <eps> | eps <rho> <delta> | rho <eps> <delta> | std <rho> <eps>   (floats as hex literals, %h)
   output: result as %h *)
open Cdp_model
let rec pos_to_float = function XH -> 1.0 | XO p -> 2.0 *. pos_to_float p | XI p -> 2.0 *. pos_to_float p +. 1.0
let z_to_float = function Z0 -> 0.0 | Zpos p -> pos_to_float p | Zneg p -> -. (pos_to_float p)
let fops : float numOps = {
  lit = (fun n d -> z_to_float n /. pos_to_float d);
  nadd = ( +. ); nsub = ( -. ); nmul = ( *. ); ndiv = ( /. ); nneg = (fun x -> -. x);
  nexp = exp; nlog = log; nlog1p = log1p; nsqrt = sqrt;
  nltb = (fun x y -> x < y); nleb = (fun x y -> x <= y); neqb = (fun x y -> x = y);
  nmin = (fun x y -> if x < y then x else y); nmax = (fun x y -> if x > y then x else y) }
let () =
  try while true do
    let line = input_line stdin in
    match List.filter (fun s -> s <> "") (String.split_on_char ' ' line) with
    | [c; a; b] ->
      let a = float_of_string a and b = float_of_string b in
      let r = match c with
        | "delta" -> cdp_delta fops a b | "eps" -> cdp_eps fops a b | "rho" -> cdp_rho fops a b
        | "std" -> cdp_delta_standard fops a b | _ -> nan in
      Printf.printf "%h\n" r
    | _ -> print_endline "nan"
  done with End_of_file -> ()
