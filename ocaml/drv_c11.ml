open Model
open Io
let rq () : q = let n = rz () in let d = rpos () in { qnum = n; qden = d }
let () =
  (* round_col <counts (num den)*> <n (hex Z)> <idx list> -> valid flag and the per-value record counts *)
  reg "round_col" (fun () ->
    let counts = rlist rq in let n = rz () in let idx = rlist rnat in
    (if valid_idx counts n idx then "valid " else "invalid ") ^ str_list hex_of_z (round_col counts n idx));
  ()
