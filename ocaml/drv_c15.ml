open Model
open Io

let rdataset () =
  let d = rdom () in
  let rows = rlist (fun () -> rlist rnat) in
  let ws = rlist (fun () -> (magic (rqc ()) : Obj.t)) in
  { ddom = d; rows = rows; weights = ws }


let () =
  reg "dom_project" (fun () -> let d = rdom () in let l = rlist rnat in str_opt str_dom (project d l));
  reg "dom_marginalize" (fun () -> let d = rdom () in let l = rlist rnat in str_opt str_dom (marginalize d l));
  reg "dom_invert" (fun () -> let d = rdom () in let l = rlist rnat in str_list str_nat (invert d l));
  reg "dom_axes" (fun () -> let d = rdom () in let l = rlist rnat in str_opt (str_list str_nat) (axes d l));
  reg "dom_merge" (fun () -> let d = rdom () in let o = rdom () in str_opt str_dom (merge d o));
  reg "dom_contains" (fun () -> let d = rdom () in let o = rdom () in str_bool (contains d o));
  reg "dom_size" (fun () -> let d = rdom () in str_nat (size d));
  reg "dom_size_of" (fun () -> let d = rdom () in let l = rlist rnat in str_opt str_nat (size_of d l));
  reg "dom_canonical" (fun () -> let d = rdom () in let l = rlist rnat in str_list str_nat (canonical d l));
  reg "dom_sort_size" (fun () -> let d = rdom () in str_opt str_dom (sort_size d));
  reg "dom_sort_name" (fun () -> let d = rdom () in str_opt str_dom (sort_name d));
  reg "dom_eq" (fun () -> let d = rdom () in let o = rdom () in str_bool (dom_eqb d o));
  reg "ds_datavector" (fun () -> let ds = rdataset () in str_list (fun x -> str_qc (magic x)) (datavector qcSR ds));
  reg "ds_project_datavector" (fun () ->
    let ds = rdataset () in let cols = rlist rnat in
    (match dproject qcSR ds cols with
     | None -> "ERR"
     | Some d' -> str_dom d'.ddom ^ " " ^ str_list (fun x -> str_qc (magic x)) (datavector qcSR d')));
  ()
