(* further numeric-model commands: ledgers (C05/C06) *)
open Num_model
let rec pos_to_float = function XH -> 1.0 | XO p -> 2.0 *. pos_to_float p | XI p -> 2.0 *. pos_to_float p +. 1.0
let z_to_float = function Z0 -> 0.0 | Zpos p -> pos_to_float p | Zneg p -> -. (pos_to_float p)
let fops : float numOps = {
  lit = (fun n d -> z_to_float n /. pos_to_float d);
  nadd = ( +. ); nsub = ( -. ); nmul = ( *. ); ndiv = ( /. ); nneg = (fun x -> -. x);
  nexp = exp; nlog = log; nlog1p = log1p; nsqrt = sqrt;
  nltb = (fun x y -> x < y); nleb = (fun x y -> x <= y); neqb = (fun x y -> x = y);
  nmin = (fun x y -> if x < y then x else y); nmax = (fun x y -> if x > y then x else y) }
let rec nat_of_int n = if n <= 0 then O else S (nat_of_int (n - 1))
let toks : string list ref = ref []
let next () = match !toks with t :: r -> toks := r; t | [] -> failwith "eol"
let rf () = float_of_string (next ())
let ri () = int_of_string (next ())
let evs l = String.concat " " (List.concat_map (fun e -> match e with
  | Gauss (s, d) -> [Printf.sprintf "%h" 0.0; Printf.sprintf "%h" s; Printf.sprintf "%h" d]
  | Select (e, f) -> [Printf.sprintf "%h" 1.0; Printf.sprintf "%h" e; Printf.sprintf "%h" f]) l)
let pevs l = String.concat " " (List.concat_map (fun e -> match e with
  | Lap (b, d) -> [Printf.sprintf "%h" 2.0; Printf.sprintf "%h" b; Printf.sprintf "%h" d]
  | PSelect (e, f) -> [Printf.sprintf "%h" 1.0; Printf.sprintf "%h" e; Printf.sprintf "%h" f]) l)
let dispatch (cmd : string) (rest : string list) : string =
  toks := rest;
  match cmd with
  | "mst_events" -> let rho = rf () in let k1 = ri () in let r = ri () in let k2 = ri () in evs (mst_events fops rho (nat_of_int k1) (nat_of_int r) (nat_of_int k2))
  | "mwem_events" -> let rho = rf () in let a = rf () in let t = ri () in let b = ri () = 1 in let f = ri () = 1 in evs (mwem_events fops rho a (nat_of_int t) b f)
  | "mwem_lap_events" -> let eps = rf () in let a = rf () in let t = ri () in let b = ri () = 1 in pevs (mwem_lap_events fops eps a (nat_of_int t) b)
  | "adagrid_events" -> let r1 = rf () in let r2 = rf () in let r3 = rf () in let n1 = ri () in let r = ri () in let n3 = ri () in
    evs (adagrid_events fops r1 r2 r3 (nat_of_int n1) (nat_of_int r) (nat_of_int n3))
  | "aim_events" -> let rho = rf () in let t = ri () in let d = ri () in let n = ri () in
    let dec = List.init n (fun _ -> ri () = 1) in evs (aim_events fops rho (nat_of_int t) (nat_of_int d) dec)
  | "emd" ->
    (* emd <eta> <total> <n> x0[n] <calls> then per call: loss grad[n]  (first call = at the start) -> final weights, then each query point *)
    let eta = rf () in let total = rf () in let n = ri () in
    let rl () = List.init n (fun _ -> rf ()) in
    let x0 = rl () in
    let calls = ri () in
    let ans = List.init calls (fun _ -> let l = rf () in let g = rl () in (l, g)) in
    (match ans with
     | [] -> failwith "no oracle answers"
     | first :: rest ->
       let (w, trace) = emd_run fops eta total x0 first rest in
       String.concat " " (List.map (Printf.sprintf "%h") (w @ List.concat trace)))
  | "hps" | "gbp" ->
    (* <total> <rho> <sweeps> <calls> <nreg> then per region: <k attrs: (attr size)*> <parents> <children> <pot values> ... *)
    let total = rf () in let rho = rf () in let sweeps = ri () in let calls = ri () in let n = ri () in
    let rnl () = let k = ri () in List.init k (fun _ -> nat_of_int (ri ())) in
    let regs = Array.init n (fun _ ->
      let k = ri () in
      let dom = List.init k (fun _ -> let a = nat_of_int (ri ()) in let s = nat_of_int (ri ()) in (a, s)) in
      let pa = rnl () in let ch = rnl () in
      let sz = List.fold_left (fun acc (_, s) -> acc * (let rec f = function O -> 0 | S m -> 1 + f m in f s)) 1 dom in
      let vals = List.init sz (fun _ -> rf ()) in
      (dom, pa, ch, vals)) in
    let geti c = let rec f = function O -> 0 | S m -> 1 + f m in f c in
    let get c = let i = geti c in if i < n then Some regs.(i) else None in
    let zero_of c = match get c with Some (dom, _, _, vals) -> { fdom = dom; fvals = List.map (fun _ -> 0.0) vals } | None -> { fdom = []; fvals = [0.0] } in
    let g = { nreg = nat_of_int n;
              rscope = (fun c -> match get c with Some (dom, _, _, _) -> List.map fst dom | None -> []);
              rparents = (fun c -> match get c with Some (_, pa, _, _) -> pa | None -> []);
              rchildren = (fun c -> match get c with Some (_, _, ch, _) -> ch | None -> []);
              rpot = (fun c -> match get c with Some (dom, _, _, vals) -> { fdom = dom; fvals = vals } | None -> { fdom = []; fvals = [0.0] });
              rzero = zero_of } in
    let redge () = let a = nat_of_int (ri ()) in let b = nat_of_int (ri ()) in (a, b) in
    let rel () = let k = ri () in List.init k (fun _ -> redge ()) in
    let outf l = String.concat " " (List.map (fun f -> String.concat " " (List.map (Printf.sprintf "%h") f.fvals)) l) in
    if cmd = "hps" then begin
      (* messages persist between calls: `calls` consecutive runs of `sweeps` sweeps; beliefs after the last *)
      let m = ref [] in let res = ref [] in
      for _ = 1 to calls do let (m', b) = hps_run fops g rho total (nat_of_int sweeps) !m in m := m'; res := b done;
      outf !res
    end else begin
      let order = rel () in
      let nl = List.map (fun e -> (e, rel ())) order in
      let dl = List.map (fun e -> (e, rel ())) order in
      let bl = List.init n (fun i -> (i, rel ())) in
      let cliques = rnl () in
      let eq (a, b) (c, d) = geti a = geti c && geti b = geti d in
      let find l e = try snd (List.find (fun (e', _) -> eq e e') l) with Not_found -> [] in
      let bfind r = try snd (List.find (fun (i, _) -> i = geti r) bl) with Not_found -> [] in
      let m0 = List.map (fun e -> (e, zero_of (snd e))) order in
      let (_, b) = gbp_run fops g order (find nl) (find dl) bfind total (nat_of_int sweeps) cliques m0 in
      outf b
    end
  | "lbp" ->
    let total = rf () in let sweeps = ri () in let ncl = ri () in
    let cls = Array.init ncl (fun _ ->
      let k = ri () in
      let dom = List.init k (fun _ -> let a = nat_of_int (ri ()) in let s = nat_of_int (ri ()) in (a, s)) in
      let sz = List.fold_left (fun acc (_, s) -> acc * (let rec f = function O -> 0 | S m -> 1 + f m in f s)) 1 dom in
      (dom, List.init sz (fun _ -> rf ()))) in
    let na = ri () in
    let ats = List.init na (fun _ -> let a = ri () in let s = ri () in (a, s)) in
    let geti c = let rec f = function O -> 0 | S m -> 1 + f m in f c in
    let cscope c = let i = geti c in if i < ncl then List.map fst (fst cls.(i)) else [] in
    let cpot c = let i = geti c in if i < ncl then { fdom = fst cls.(i); fvals = snd cls.(i) } else { fdom = []; fvals = [0.0] } in
    let vzero v = let i = geti v in let s = try List.assoc i ats with Not_found -> 1 in { fdom = [(v, nat_of_int s)]; fvals = List.init s (fun _ -> 0.0) } in
    let b = lbp_run fops (nat_of_int ncl) cscope cpot vzero total (nat_of_int sweeps) in
    String.concat " " (List.map (fun f -> String.concat " " (List.map (Printf.sprintf "%h") f.fvals)) b)
  | _ -> failwith ("unknown command " ^ cmd)
