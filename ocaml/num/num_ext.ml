(* further commands are added here as more numeric models are extracted *)
let dispatch (cmd : string) : string = failwith ("unknown command " ^ cmd)
