(* further numeric-model commands: ledgers (C05/C06) *)
open Num_model
let rec pos_to_float = function XH -> 1.0 | XO p -> 2.0 *. pos_to_float p | XI p -> 2.0 *. pos_to_float p +. 1.0
let z_to_float = function Z0 -> 0.0 | Zpos p -> pos_to_float p | Zneg p -> -. (pos_to_float p)
let fops : float numOps = {
  lit = (fun n d -> z_to_float n /. pos_to_float d);
  nadd = ( +. ); nsub = ( -. ); nmul = ( *. ); ndiv = ( /. ); nneg = (fun x -> -. x);
  nexp = exp; nlog = log; nlog1p = log1p; nsqrt = sqrt;
  nltb = (fun x y -> x < y); nleb = (fun x y -> x <= y); neqb = (fun x y -> x = y);
  nmin = (fun x y -> if x < y then x else y); nmax = (fun x y -> if x > y then x else y) }
let rec nat_of_int n = if n <= 0 then O else S (nat_of_int (n - 1))
let toks : string list ref = ref []
let next () = match !toks with t :: r -> toks := r; t | [] -> failwith "eol"
let rf () = float_of_string (next ())
let ri () = int_of_string (next ())
let evs l = String.concat " " (List.concat_map (fun e -> match e with
  | Gauss (s, d) -> [Printf.sprintf "%h" 0.0; Printf.sprintf "%h" s; Printf.sprintf "%h" d]
  | Select (e, f) -> [Printf.sprintf "%h" 1.0; Printf.sprintf "%h" e; Printf.sprintf "%h" f]) l)
let dispatch (cmd : string) (rest : string list) : string =
  toks := rest;
  match cmd with
  | "mst_events" -> let rho = rf () in let k1 = ri () in let r = ri () in let k2 = ri () in evs (mst_events fops rho (nat_of_int k1) (nat_of_int r) (nat_of_int k2))
  | "mwem_events" -> let rho = rf () in let a = rf () in let t = ri () in let b = ri () = 1 in let f = ri () = 1 in evs (mwem_events fops rho a (nat_of_int t) b f)
  | "adagrid_events" -> let r1 = rf () in let r2 = rf () in let r3 = rf () in let n1 = ri () in let r = ri () in let n3 = ri () in
    evs (adagrid_events fops r1 r2 r3 (nat_of_int n1) (nat_of_int r) (nat_of_int n3))
  | "aim_events" -> let rho = rf () in let t = ri () in let d = ri () in let n = ri () in
    let dec = List.init n (fun _ -> ri () = 1) in evs (aim_events fops rho (nat_of_int t) (nat_of_int d) dec)
  | "emd" ->
    (* emd <eta> <total> <n> x0[n] <calls> then per call: loss grad[n]  (first call = at the start) -> final weights, then each query point *)
    let eta = rf () in let total = rf () in let n = ri () in
    let rl () = List.init n (fun _ -> rf ()) in
    let x0 = rl () in
    let calls = ri () in
    let ans = List.init calls (fun _ -> let l = rf () in let g = rl () in (l, g)) in
    (match ans with
     | [] -> failwith "no oracle answers"
     | first :: rest ->
       let (w, trace) = emd_run fops eta total x0 first rest in
       String.concat " " (List.map (Printf.sprintf "%h") (w @ List.concat trace)))
  | _ -> failwith ("unknown command " ^ cmd)
