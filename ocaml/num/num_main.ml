(* float runner for the hand-written numeric models.  One case per line: <cmd> tokens...; floats as hex (%h) literals,
   lists length-prefixed.  Output: floats as %h separated by spaces. *)
open Num_model
let rec pos_to_float = function XH -> 1.0 | XO p -> 2.0 *. pos_to_float p | XI p -> 2.0 *. pos_to_float p +. 1.0
let z_to_float = function Z0 -> 0.0 | Zpos p -> pos_to_float p | Zneg p -> -. (pos_to_float p)
let fops : float numOps = {
  lit = (fun n d -> z_to_float n /. pos_to_float d);
  nadd = ( +. ); nsub = ( -. ); nmul = ( *. ); ndiv = ( /. ); nneg = (fun x -> -. x);
  nexp = exp; nlog = log; nlog1p = log1p; nsqrt = sqrt;
  nltb = (fun x y -> x < y); nleb = (fun x y -> x <= y); neqb = (fun x y -> x = y);
  nmin = (fun x y -> if x < y then x else y); nmax = (fun x y -> if x > y then x else y) }
let toks = ref []
let next () = match !toks with t :: r -> toks := r; t | [] -> failwith "eol"
let rf () = float_of_string (next ())
let ri () = int_of_string (next ())
let rl () = let n = ri () in let rec go i acc = if i >= n then List.rev acc else let x = rf () in go (i + 1) (x :: acc) in go 0 []
let out l = String.concat " " (List.map (Printf.sprintf "%h") l)
let dispatch cmd =
  match cmd with
  | "em_mechanism" -> let q = rl () in let eps = rf () in let sens = rf () in let hb = ri () in
    let base = if hb = 1 then Some (rl ()) else None in out (em_mechanism fops q eps sens base)
  | "em_mst" -> let q = rl () in let eps = rf () in let sens = rf () in let mono = ri () = 1 in out (em_mst fops q eps sens mono)
  | "em_adagrid" -> let q = rl () in let eps = rf () in let sens = rf () in let mono = ri () = 1 in out (em_adagrid fops q eps sens mono)
  | "em_mwem" -> let q = rl () in let eps = rf () in let b = ri () = 1 in out (em_mwem fops q eps b)
  | "laplace_scale" -> let b = ri () = 1 in let l1 = rf () in let eps = rf () in out [laplace_scale fops b l1 eps]
  | "gaussian_scale" -> let b = ri () = 1 in let l2 = rf () in let s = rf () in out [gaussian_scale fops b l2 s]
  | _ -> Num_ext.dispatch cmd !toks
let () =
  try while true do
    let line = input_line stdin in
    (match List.filter (fun s -> s <> "") (String.split_on_char ' ' line) with
     | [] -> print_endline ""
     | cmd :: rest -> toks := rest; (try print_endline (dispatch cmd) with e -> print_endline ("EXC " ^ Printexc.to_string e)))
  done with End_of_file -> ()
