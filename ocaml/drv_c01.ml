open Model
open Io

(* model description shared by the inference commands:
   <dom> <ncl> then per clique: <scope list> <nbrs list> <factor dom> <values (Qnn: num den)> ; <schedule> <total> <c0> *)
type mdl = { shape : nat -> nat; dl : nat list; ncl : nat; scope : nat -> nat list; nbrs : nat -> nat list;
             psi : nat -> (nat -> nat) -> Obj.t; fac : qnn factor array }
let rqfactor () : qnn factor = let d = rdom () in let vs = rlist rqnn in { fdom = d; fvals = vs }
let rmodel () : mdl =
  let d = rdom () in
  let n = rint () in
  let arr = Array.make n ([], [], { fdom = []; fvals = [] }) in
  for c = 0 to n - 1 do
    let sc = rlist rnat in let nb = rlist rnat in let f = rqfactor () in arr.(c) <- (sc, nb, f)
  done;
  let get c = let i = int_of_nat c in if i < n then Some arr.(i) else None in
  let shape a = match lookup d a with Some k -> k | None -> S O in
  { shape; dl = attrs d; ncl = nat_of_int n;
    scope = (fun c -> match get c with Some (s, _, _) -> s | None -> []);
    nbrs = (fun c -> match get c with Some (_, b, _) -> b | None -> []);
    psi = (fun c -> match get c with Some (_, _, f) -> (fun x -> magic (tbl_of (magic q0) (magic f) x)) | None -> (fun _ -> magic q1));
    fac = Array.map (fun (_, _, f) -> f) arr }
let rsched () = rlist (fun () -> let i = rnat () in let j = rnat () in (i, j))
let str_q (x : Obj.t) = str_qc (qv (magic x))

let () =
  reg "bp" (fun () ->
    let m = rmodel () in let sch = rsched () in let total = rqnn () in let c0 = rnat () in
    let ok = jt_okb m.dl m.ncl m.scope m.nbrs sch in
    let sb = structb m.dl m.ncl m.scope m.nbrs in
    let (z, tbls) = marginal_table qnnSF m.shape m.dl m.ncl m.scope m.psi sch (magic total) c0 in
    (if ok then "jt_ok" else (if sb then "jt_bad" else "struct_bad")) ^ " " ^ str_q z ^ " " ^
    String.concat " " (List.map (fun l -> str_list str_q l) tbls));
  reg "jt_check" (fun () ->
    let d = rdom () in let n = rint () in
    let arr = Array.make n ([], []) in
    for c = 0 to n - 1 do let sc = rlist rnat in let nb = rlist rnat in arr.(c) <- (sc, nb) done;
    let get c = let i = int_of_nat c in if i < n then Some arr.(i) else None in
    let scope c = match get c with Some (s, _) -> s | None -> [] in
    let nbrs c = match get c with Some (_, b) -> b | None -> [] in
    let sch = rsched () in
    let dl = attrs d in let ncl = nat_of_int n in
    let sb = structb dl ncl scope nbrs in
    let vs = vschedb nbrs [] sch in
    let cp = completeb ncl nbrs sch in
    let roots = List.map (fun c -> rootokb dl ncl scope nbrs sch (nat_of_int c)) (List.init n (fun i -> i)) in
    Printf.sprintf "struct=%b sched=%b complete=%b roots=%s" sb vs cp (String.concat "" (List.map (fun b -> if b then "1" else "0") roots)));
  ()
