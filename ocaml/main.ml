let () =
  try
    while true do
      let line = input_line stdin in
      let l = List.filter (fun s -> s <> "") (String.split_on_char ' ' line) in
      (match l with
       | [] -> print_endline ""
       | cmd :: rest ->
         Io.toks := rest;
         (try print_endline ((try Hashtbl.find Io.registry cmd with Not_found -> failwith ("unknown command " ^ cmd)) ()) with
          | Stack_overflow -> print_endline "EXC stack_overflow"
          | e -> print_endline ("EXC " ^ Printexc.to_string e)))
    done
  with End_of_file -> ()
