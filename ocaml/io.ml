(* Line-protocol driver around the extracted models.  One case per input line:
   <command> <token> ...   ->   one output line (or "EXC <msg>").
   Integers are decimal; big integers (Z) are hexadecimal with optional leading '-';
   lists are length-prefixed.  Rationals are two tokens: numerator (Z) denominator (positive). *)
open Model

let toks : string list ref = ref []
let next () = match !toks with t :: r -> toks := r; t | [] -> failwith "unexpected end of line"
let rint () = int_of_string (next ())
let rec nat_of_int n = if n <= 0 then O else S (nat_of_int (n - 1))
let int_of_nat n = let rec go acc = function O -> acc | S m -> go (acc + 1) m in go 0 n
let rnat () = nat_of_int (rint ())
let rlist (f : unit -> 'a) : 'a list =
  let n = rint () in
  let rec go i acc = if i >= n then List.rev acc else let x = f () in go (i + 1) (x :: acc) in
  go 0 []

(* positive / Z <-> hex *)
let bits_of_hex (s : string) : bool list =
  let l = ref [] in
  String.iter (fun c ->
    let v = int_of_string ("0x" ^ String.make 1 c) in
    l := (v land 1 <> 0) :: (v land 2 <> 0) :: (v land 4 <> 0) :: (v land 8 <> 0) :: !l) s;
  (* !l is LSB-first reversed per nibble: we pushed b3 b2 b1 b0 reversed => list is LSB first *)
  List.rev !l   (* MSB first *)
let pos_of_hex (s : string) : positive =
  let rec strip = function false :: r -> strip r | l -> l in
  match strip (bits_of_hex s) with
  | [] -> failwith "positive expected"
  | _ :: r -> List.fold_left (fun p b -> if b then XI p else XO p) XH r
let z_of_hex (s : string) : z =
  if s = "0" then Z0
  else if String.length s > 0 && s.[0] = '-' then Zneg (pos_of_hex (String.sub s 1 (String.length s - 1)))
  else Zpos (pos_of_hex s)
let hex_of_pos (p : positive) : string =
  let rec bits acc = function XH -> true :: acc | XO q -> bits (false :: acc) q | XI q -> bits (true :: acc) q in
  let b = bits [] p in (* MSB first *)
  let n = List.length b in
  let pad = (4 - n mod 4) mod 4 in
  let b = List.init pad (fun _ -> false) @ b in
  let buf = Buffer.create 16 in
  let rec go = function
    | b3 :: b2 :: b1 :: b0 :: r ->
      let v = (if b3 then 8 else 0) + (if b2 then 4 else 0) + (if b1 then 2 else 0) + (if b0 then 1 else 0) in
      Buffer.add_string buf (Printf.sprintf "%x" v); go r
    | _ -> () in
  go b; Buffer.contents buf
let hex_of_z = function Z0 -> "0" | Zpos p -> hex_of_pos p | Zneg p -> "-" ^ hex_of_pos p
let rz () = z_of_hex (next ())
let rpos () = pos_of_hex (next ())
let rqc () : qc = let n = rz () in let d = rpos () in qc_of n d
let rqnn () : qnn = let n = rz () in let d = rpos () in qnn_of n d
let str_qc (q : qc) = hex_of_z (qc_num q) ^ "/" ^ hex_of_pos (qc_den q)
let str_nat n = string_of_int (int_of_nat n)
let str_list f l = "[" ^ String.concat " " (List.map f l) ^ "]"
let str_opt f = function None -> "ERR" | Some x -> f x
let rdom () : dom = rlist (fun () -> let a = rnat () in let n = rnat () in (a, n))
let str_dom (d : dom) = str_list (fun (a, n) -> str_nat a ^ ":" ^ str_nat n) d
let str_bool b = if b then "true" else "false"

let magic = Obj.magic


let registry : (string, unit -> string) Hashtbl.t = Hashtbl.create 64
let reg name f = Hashtbl.replace registry name f
