open Model
open Io

let () =
  (* jt_build <dom> <input cliques> <order (empty = none)>  -> maximal elimination cliques for the order (or the greedy order), and the greedy order *)
  reg "jt_build" (fun () ->
    let d = rdom () in let cls = rlist (fun () -> rlist rnat) in let order = rlist rnat in
    let at = attrs d in
    let size a = match lookup d a with Some k -> k | None -> S O in
    let g = greedy_order size at cls in
    let ord = if order = [] then g else order in
    str_list (str_list str_nat) (jt_cliques at cls ord) ^ " " ^ str_list str_nat g);
  (* jt_verify <dom> <input cliques> <ncl> (scope nbrs)* <schedule> *)
  reg "jt_verify" (fun () ->
    let d = rdom () in let cls = rlist (fun () -> rlist rnat) in
    let n = rint () in
    let arr = Array.make n ([], []) in
    for c = 0 to n - 1 do let sc = rlist rnat in let nb = rlist rnat in arr.(c) <- (sc, nb) done;
    let get c = let i = int_of_nat c in if i < n then Some arr.(i) else None in
    let scope c = match get c with Some (s, _) -> s | None -> [] in
    let nbrs c = match get c with Some (_, b) -> b | None -> [] in
    let sch = rlist (fun () -> let i = rnat () in let j = rnat () in (i, j)) in
    let dl = attrs d in let ncl = nat_of_int n in
    let nodes = Array.to_list (Array.map fst arr) in
    let roots = List.map (fun c -> rootokb dl ncl scope nbrs sch (nat_of_int c)) (List.init n (fun i -> i)) in
    Printf.sprintf "struct=%b sched=%b complete=%b cover=%b attrs=%b antichain=%b roots=%s"
      (structb dl ncl scope nbrs) (vschedb nbrs [] sch) (completeb ncl nbrs sch)
      (coverb cls nodes) (attrs_coverb dl nodes) (antichainb nodes)
      (String.concat "" (List.map (fun b -> if b then "1" else "0") roots)));
  ()
