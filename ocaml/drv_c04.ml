open Model
open Io

let rqcfactor () : qc factor = let d = rdom () in let vs = rlist rqc in { fdom = d; fvals = vs }
let vec_of (a : qc array) : nat -> qc = fun i -> let k = int_of_nat i in if k < Array.length a then a.(k) else qc_of Z0 XH
let rmeas () : meas =
  let rows = rint () in let cols = rint () in
  let q = Array.init (rows * cols) (fun _ -> rqc ()) in
  let y = Array.init rows (fun _ -> rqc ()) in
  let c = rqc () in
  let proj = rlist rnat in
  { mQ = (fun i j -> let a = int_of_nat i and b = int_of_nat j in if a < rows && b < cols then q.(a * cols + b) else qc_of Z0 XH);
    mrows = nat_of_int rows; my = vec_of y; mc = c; mproj = proj }

let () =
  (* loss <l1:0/1> <dom> <cliques> <mu factor per clique> <measurements> *)
  reg "loss" (fun () ->
    let l1 = rint () = 1 in
    let d = rdom () in
    let cls = rlist (fun () -> rlist rnat) in
    let mus = List.map (fun _ -> rqcfactor ()) cls in
    let ms = rlist rmeas in
    let size cl = match size_of d cl with Some n -> n | None -> O in
    let (l, gs) = total_loss l1 size cls mus ms in
    let grp = List.map (fun m -> match group_of size cls m.mproj with Some i -> str_nat i | None -> "-") ms in
    let lgrp = List.map (fun m -> match lip_group_of cls m.mproj with Some i -> str_nat i | None -> "-") ms in
    str_qc l ^ " " ^ String.concat " " (List.map (fun g -> str_list str_qc g.fvals) gs) ^ " G " ^ String.concat "," grp ^ " L " ^ String.concat "," lgrp);
  (* total <measurement count> then per measurement: rows cols Q v(rows) y(rows) sigma accepted(0/1) -> ivw total, and Q^T v per measurement *)
  reg "total" (fun () ->
    let n = rint () in
    let items = ref [] in
    let checks = ref [] in
    for _ = 1 to n do
      let rows = rint () in let cols = rint () in
      let q = Array.init (rows * cols) (fun _ -> rqc ()) in
      let v = Array.init rows (fun _ -> rqc ()) in
      let y = Array.init rows (fun _ -> rqc ()) in
      let sigma = rqc () in
      let acc = rint () = 1 in
      let qf i j = let a = int_of_nat i and b = int_of_nat j in if a < rows && b < cols then q.(a * cols + b) else qc_of Z0 XH in
      let qtv = List.init cols (fun j -> tmatvec qf (nat_of_int rows) (vec_of v) (nat_of_int j)) in
      checks := str_list str_qc qtv :: !checks;
      if acc then items := (est_of (nat_of_int rows) (vec_of v) (vec_of y), var_of (nat_of_int rows) (vec_of v) sigma) :: !items
    done;
    str_qc (ivw (List.rev !items)) ^ " " ^ String.concat " " (List.rev !checks));
  ()
