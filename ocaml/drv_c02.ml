open Model
open Io
open Drv_c01

let table (m : mdl) (attrs : nat list) (t : (nat -> nat) -> Obj.t) : string =
  str_list str_q (table_of qnnSF m.shape attrs t)

let () =
  (* q_brute <model> <total> <attrs> : brute-force marginal of the explicit joint, requested order *)
  reg "q_brute" (fun () ->
    let m = rmodel () in let total = rqnn () in let at = rlist rnat in
    table m at (brute qnnSF m.shape m.dl m.ncl m.psi (magic total) at));
  (* q_project_ve <model> <total> <attrs> : the uncached project path (eliminate D \ attrs in domain order) *)
  reg "q_project_ve" (fun () ->
    let m = rmodel () in let total = rqnn () in let at = rlist rnat in
    let elim = List.filter (fun a -> not (memb a at)) m.dl in
    table m at (project_ve qnnSF m.shape m.ncl m.scope m.psi elim at (magic total)));
  (* q_krondot <model> <total> then per domain attribute (in domain order): <rows> <rows*size entries (Qc)> *)
  reg "q_krondot" (fun () ->
    let m = rmodel () in let total = rqc () in
    let base = nat_of_int 1000 in
    let add_n a b = nat_of_int (int_of_nat a + int_of_nat b) in
    let qs = List.map (fun a ->
      let rows = rint () in
      let sz = int_of_nat (m.shape a) in
      let ent = Array.init (rows * sz) (fun _ -> rqc ()) in
      let q r v = (magic (let ri = int_of_nat r and vi = int_of_nat v in if ri < rows && vi < sz then ent.(ri * sz + vi) else qc_of Z0 XH) : Obj.t) in
      (rows, qfactor qcSR a (add_n base a) q)) m.dl in
    let potsl = pots qnnSF m.ncl m.scope m.psi in
    let z = ve qcSR m.shape m.dl potsl (fun _ -> O) in
    let res = krondot qcSR m.shape m.dl potsl (List.map snd qs) in
    let ansattrs = List.map (fun a -> add_n base a) m.dl in
    let rowsof a = let i = int_of_nat a - 1000 in List.assoc i (List.map2 (fun a (r, _) -> (int_of_nat a, r)) m.dl qs) in
    let shape' a = if int_of_nat a >= 1000 then nat_of_int (rowsof a) else m.shape a in
    let cellsl = cells (List.map shape' ansattrs) in
    let scale = qcmult total (qcinv (magic z)) in
    str_list (fun c -> str_qc (qcmult (magic (res (asg_of ansattrs c))) scale)) cellsl);
  ()
