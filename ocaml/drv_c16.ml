open Model
open Io

(* lbp <dom> <nf> then per factor: <scope list> <factor dom> <values (Qnn)> ; <sweeps> <total> :
   the executable model of FactorGraph.loopy_belief_propagation on the bipartite graph (factors 0..nf-1, then one node per domain attribute);
   prints the normalised belief of every factor over its scope (row-major) *)
let () =
  reg "lbp" (fun () ->
    let d = rdom () in
    let nf = rint () in
    let arr = Array.make nf ([], { fdom = []; fvals = [] }) in
    for c = 0 to nf - 1 do
      let sc = rlist rnat in let fd = rdom () in let vs = rlist rqnn in arr.(c) <- (sc, { fdom = fd; fvals = vs })
    done;
    let sweeps = rnat () in let total = rqnn () in
    let dl = attrs d in
    let nv = List.length dl in
    let shape a = match lookup d a with Some k -> k | None -> S O in
    let vidx a = let rec go i = function [] -> failwith "attribute" | b :: r -> if b = a then i else go (i + 1) r in go 0 dl in
    let scope c = let i = int_of_nat c in if i < nf then fst arr.(i) else if i < nf + nv then [List.nth dl (i - nf)] else [] in
    let nbrs c = let i = int_of_nat c in
      if i < nf then List.map (fun a -> nat_of_int (nf + vidx a)) (fst arr.(i))
      else if i < nf + nv then (let a = List.nth dl (i - nf) in List.filter_map (fun f -> if List.mem a (fst arr.(f)) then Some (nat_of_int f) else None) (List.init nf (fun f -> f)))
      else [] in
    let psi c = let i = int_of_nat c in
      if i < nf then (fun x -> magic (tbl_of (magic (qnn_of Z0 XH)) (magic (snd arr.(i))) x)) else (fun _ -> magic (qnn_of (Zpos XH) XH)) in
    let fv = List.concat (List.init nf (fun f -> List.map (fun a -> (nat_of_int f, nat_of_int (nf + vidx a))) (fst arr.(f)))) in
    let vf = List.map (fun (f, v) -> (v, f)) fv in
    let cellsof c = let f = int_of_nat c in if f < nf then List.map (fun cell -> asg_of (fst arr.(f)) cell) (cells (List.map shape (fst arr.(f)))) else [] in
    let tbls = lbp_tables qnnSF shape dl scope nbrs psi fv vf sweeps (magic total) (nat_of_int nf) cellsof in
    String.concat " " (List.map (fun l -> str_list (fun x -> str_qc (qv (magic x))) l) tbls));
  ()
