open Model
open Io

(* xq token: "N" (-inf) or "<num> <den>" *)
let rxq () : xq = let t = next () in if t = "N" then None else (let n = z_of_hex t in let d = rpos () in Some (qc_of n d))
let str_xq (v : xq) = match v with None -> "N" | Some q -> str_qc q
let rfactor () : xq factor = let d = rdom () in let vs = rlist rxq in { fdom = d; fvals = vs }
let str_factor (f : xq factor) = str_dom f.fdom ^ " " ^ str_list str_xq f.fvals
let rop () = match next () with
  | "add" -> xadd | "sub" -> xsub | "mul" -> xmul | "div" -> xdiv | "max" -> xmax
  | s -> failwith ("unknown op " ^ s)
let ragg () = match next () with
  | "add" -> (xadd, xzero) | "max" -> (xmax, xninf) | s -> failwith ("unknown agg " ^ s)
let rcvec () : xq cvec = rlist (fun () -> let cl = rlist rnat in let f = rfactor () in (cl, f))
let str_cvec (v : xq cvec) = String.concat " ; " (List.map (fun (cl, f) -> str_list str_nat cl ^ " " ^ str_factor f) v)
let dfl : xq = xzero

let () =
  reg "f_expand" (fun () -> let f = rfactor () in let d = rdom () in str_opt str_factor (expand dfl f d));
  reg "f_transpose" (fun () -> let f = rfactor () in let l = rlist rnat in str_opt str_factor (transpose dfl f l));
  reg "f_bin" (fun () -> let op = rop () in let f = rfactor () in let g = rfactor () in str_opt str_factor (fbin dfl op f g));
  reg "f_ibin" (fun () -> let op = rop () in let f = rfactor () in let g = rfactor () in str_opt str_factor (fibin dfl op f g));
  reg "f_scalar" (fun () -> let op = rop () in let f = rfactor () in let c = rxq () in str_factor (fmap (fun v -> op v c) f));
  reg "f_agg" (fun () -> let (op, u) = ragg () in let f = rfactor () in let l = rlist rnat in str_opt str_factor (fagg dfl op u f l));
  reg "f_project" (fun () -> let (op, u) = ragg () in let f = rfactor () in let l = rlist rnat in str_opt str_factor (fproject dfl op u f l));
  reg "f_condition" (fun () -> let f = rfactor () in let ev = rlist (fun () -> let a = rnat () in let v = rnat () in (a, v)) in
                      str_opt str_factor (condition dfl f ev));
  reg "cv_bin" (fun () -> let op = rop () in let v = rcvec () in let w = rcvec () in str_opt str_cvec (cv_bin dfl op v w));
  reg "cv_combine" (fun () -> let op = rop () in let v = rcvec () in let w = rcvec () in str_cvec (cv_combine dfl op v w));
  ()
