(* Line-protocol driver around the functions generated from src/mbi/domain.py.  Same commands and output format as the
   hand-written model's driver (ocaml/drv_c15.ml): a domain is a length-prefixed list of <attr> <size> pairs. *)
open Gen_model
open DomainGen
let toks : string list ref = ref []
let next () = match !toks with t :: r -> toks := r; t | [] -> failwith "unexpected end of line"
let rint () = int_of_string (next ())
let rec nat_of_int n = if n <= 0 then O else S (nat_of_int (n - 1))
let int_of_nat n = let rec go acc = function O -> acc | S m -> go (acc + 1) m in go 0 n
let rnat () = nat_of_int (rint ())
let rlist f = let n = rint () in let rec go i acc = if i >= n then List.rev acc else let x = f () in go (i + 1) (x :: acc) in go 0 []
let str_nat n = string_of_int (int_of_nat n)
let str_list f l = "[" ^ String.concat " " (List.map f l) ^ "]"
let str_opt f = function None -> "ERR" | Some x -> f x
let str_bool b = if b then "true" else "false"
(* the constructor is the generated one: Domain(attrs, shape) *)
let rdom () = let l = rlist (fun () -> let a = rnat () in let n = rnat () in (a, n)) in
  match init (List.map fst l) (List.map snd l) with Some d -> d | None -> failwith "constructor assertion"
let str_dom d = str_list (fun (a, n) -> str_nat a ^ ":" ^ str_nat n) (List.combine d.f_attrs d.f_shape)
let run cmd = match cmd with
  | "dom_project" -> let d = rdom () in let l = rlist rnat in str_opt str_dom (project d (Inr l))
  | "dom_project_str" -> let d = rdom () in let a = rnat () in str_opt str_dom (project d (Inl a))
  | "dom_transpose" -> let d = rdom () in let l = rlist rnat in str_opt str_dom (transpose d (Inr l))
  | "dom_marginalize" -> let d = rdom () in let l = rlist rnat in str_opt str_dom (marginalize d l)
  | "dom_invert" -> let d = rdom () in let l = rlist rnat in str_opt (str_list str_nat) (invert d l)
  | "dom_axes" -> let d = rdom () in let l = rlist rnat in str_opt (str_list str_nat) (axes d l)
  | "dom_merge" -> let d = rdom () in let o = rdom () in str_opt str_dom (merge d o)
  | "dom_contains" -> let d = rdom () in let o = rdom () in str_opt str_bool (contains d o)
  | "dom_size" -> let d = rdom () in str_opt str_nat (size d None)
  | "dom_size_of" -> let d = rdom () in let l = rlist rnat in str_opt str_nat (size d (Some (Inr l)))
  | "dom_size_str" -> let d = rdom () in let a = rnat () in str_opt str_nat (size d (Some (Inl a)))
  | "dom_canonical" -> let d = rdom () in let l = rlist rnat in str_opt (str_list str_nat) (canonical d l)
  | "dom_sort_size" -> let d = rdom () in str_opt str_dom (sort d O)
  | "dom_sort_name" -> let d = rdom () in str_opt str_dom (sort d (S O))
  | "dom_eq" -> let d = rdom () in let o = rdom () in str_opt str_bool (dunder_eq d o)
  | "dom_in" -> let d = rdom () in let a = rnat () in str_opt str_bool (dunder_contains d a)
  | "dom_getitem" -> let d = rdom () in let a = rnat () in str_opt str_nat (dunder_getitem d a)
  | "dom_len" -> let d = rdom () in str_opt str_nat (dunder_len d)
  | "dom_init" -> let a = rlist rnat in let s = rlist rnat in str_opt str_dom (init a s)
  | _ -> failwith ("unknown command " ^ cmd)
let () =
  try while true do
    let line = input_line stdin in
    match List.filter (fun s -> s <> "") (String.split_on_char ' ' line) with
    | [] -> print_endline ""
    | cmd :: rest -> toks := rest; (try print_endline (run cmd) with e -> print_endline ("EXC " ^ Printexc.to_string e))
  done with End_of_file -> ()
