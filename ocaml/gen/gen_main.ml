(* Line-protocol driver around the functions GENERATED from the Python source: src/mbi/domain.py (same commands and output format as
   the hand-written model's driver ocaml/drv_c15.ml) and GraphicalModel.belief_propagation (command bp_src, same input as `bp`). *)
open Model
open Io
open DomainGen

(* the constructor is the generated one: Domain(attrs, shape) *)
let rgdom () = let l = rlist (fun () -> let a = rnat () in let n = rnat () in (a, n)) in
  match init (List.map fst l) (List.map snd l) with Some d -> d | None -> failwith "constructor assertion"
let str_gdom d = str_list (fun (a, n) -> str_nat a ^ ":" ^ str_nat n) (List.combine d.f_attrs d.f_shape)

type mdl = { shape : nat -> nat; dl : nat list; ncl : nat; scope : nat -> nat list; psi : nat -> (nat -> nat) -> Obj.t }
let rqfactor () : qnn factor = let d = rdom () in let vs = rlist rqnn in { fdom = d; fvals = vs }
let rmodel () : mdl =
  let d = rdom () in
  let n = rint () in
  let arr = Array.make n ([], { fdom = []; fvals = [] }) in
  for c = 0 to n - 1 do
    let sc = rlist rnat in let _ = rlist rnat in let f = rqfactor () in arr.(c) <- (sc, f)
  done;
  let get c = let i = int_of_nat c in if i < n then Some arr.(i) else None in
  let shape a = match lookup d a with Some k -> k | None -> S O in
  { shape; dl = attrs d; ncl = nat_of_int n;
    scope = (fun c -> match get c with Some (s, _) -> s | None -> []);
    psi = (fun c -> match get c with Some (_, f) -> (fun x -> magic (tbl_of (magic (qnn_of Z0 XH)) (magic f) x)) | None -> (fun _ -> magic (qnn_of (Zpos XH) XH))) }
let str_q (x : Obj.t) = str_qc (qv (magic x))
let rec seqn i n = if i >= n then [] else nat_of_int i :: seqn (i + 1) n

let () =
  reg "dom_project" (fun () -> let d = rgdom () in let l = rlist rnat in str_opt str_gdom (project d (Inr l)));
  reg "dom_project_str" (fun () -> let d = rgdom () in let a = rnat () in str_opt str_gdom (project d (Inl a)));
  reg "dom_transpose" (fun () -> let d = rgdom () in let l = rlist rnat in str_opt str_gdom (transpose d (Inr l)));
  reg "dom_marginalize" (fun () -> let d = rgdom () in let l = rlist rnat in str_opt str_gdom (marginalize d l));
  reg "dom_invert" (fun () -> let d = rgdom () in let l = rlist rnat in str_opt (str_list str_nat) (invert d l));
  reg "dom_axes" (fun () -> let d = rgdom () in let l = rlist rnat in str_opt (str_list str_nat) (axes d l));
  reg "dom_merge" (fun () -> let d = rgdom () in let o = rgdom () in str_opt str_gdom (merge d o));
  reg "dom_contains" (fun () -> let d = rgdom () in let o = rgdom () in str_opt str_bool (contains d o));
  reg "dom_size" (fun () -> let d = rgdom () in str_opt str_nat (size d None));
  reg "dom_size_of" (fun () -> let d = rgdom () in let l = rlist rnat in str_opt str_nat (size d (Some (Inr l))));
  reg "dom_size_str" (fun () -> let d = rgdom () in let a = rnat () in str_opt str_nat (size d (Some (Inl a))));
  reg "dom_canonical" (fun () -> let d = rgdom () in let l = rlist rnat in str_opt (str_list str_nat) (canonical d l));
  reg "dom_sort_size" (fun () -> let d = rgdom () in str_opt str_gdom (sort d O));
  reg "dom_sort_name" (fun () -> let d = rgdom () in str_opt str_gdom (sort d (S O)));
  reg "dom_eq" (fun () -> let d = rgdom () in let o = rgdom () in str_opt str_bool (dunder_eq d o));
  reg "dom_in" (fun () -> let d = rgdom () in let a = rnat () in str_opt str_bool (dunder_contains d a));
  reg "dom_getitem" (fun () -> let d = rgdom () in let a = rnat () in str_opt str_nat (dunder_getitem d a));
  reg "dom_len" (fun () -> let d = rgdom () in str_opt str_nat (dunder_len d));
  reg "dom_init" (fun () -> let a = rlist rnat in let s = rlist rnat in str_opt str_gdom (init a s));
  (* bp_src <model> <schedule> <total> [c0] : the GENERATED belief_propagation; sep_axes[(i,j)] = attributes of clique i that clique j shares
     (the harness checks the code's sep_axes against that set); potentials materialised as the tries of the model *)
  reg "bp_src" (fun () ->
    let m = rmodel () in
    let sch = rlist (fun () -> let i = rnat () in let j = rnat () in (i, j)) in
    let total = rqnn () in
    let want_z = (try rint () with _ -> 1) <> 0 in
    let sep i j = List.filter (fun a -> List.mem a (m.scope j)) (m.scope i) in
    let n = int_of_nat m.ncl in
    let pots = List.map (fun c -> mat qnnSF m.shape m.dl (m.psi c)) (seqn 0 n) in
    let z = if not want_z then None else match belief_propagation qnnSF m.shape m.dl m.ncl m.scope sep sch (magic total) pots true with Inl z -> Some z | Inr _ -> failwith "logZ branch" in
    let bs = match belief_propagation qnnSF m.shape m.dl m.ncl m.scope sep sch (magic total) pots false with Inr b -> b | Inl _ -> failwith "marginal branch" in
    let tbls = List.map (fun c ->
        let b = List.nth bs (int_of_nat c) in
        List.map (fun cell -> lk qnnSF m.dl b (asg_of (m.scope c) cell)) (cells (List.map m.shape (m.scope c)))) (seqn 0 n) in
    (match z with Some z -> str_q z | None -> "-") ^ " " ^ String.concat " " (List.map (fun l -> str_list str_q l) tbls));
  (* mle_src <model> : the GENERATED GraphicalModel.mle; the model's factors are the clique marginals mu_c, cliques numbered in self.cliques order *)
  reg "mle_src" (fun () ->
    let m = rmodel () in
    let n = int_of_nat m.ncl in
    let marg = List.map (fun c -> mat qnnSF m.shape m.dl (m.psi c)) (seqn 0 n) in
    let ps = mle qnnSF m.shape m.dl m.ncl m.scope marg in
    let tbls = List.map (fun c ->
        let b = List.nth ps (int_of_nat c) in
        List.map (fun cell -> lk qnnSF m.dl b (asg_of (m.scope c) cell)) (cells (List.map m.shape (m.scope c)))) (seqn 0 n) in
    String.concat " " (List.map (fun l -> str_list str_q l) tbls));
  (* mp_check <tree edges> <order> : the GENERATED message list and dependency edges of JunctionTree.mp_order; is <order> a permutation of the
     messages in which the source of every dependency edge precedes its target?  prints messages=<n> edges=<n> perm=<b> topo=<b> *)
  reg "mp_check" (fun () ->
    let te = rlist (fun () -> let a = rnat () in let b = rnat () in (a, b)) in
    let order = rlist (fun () -> let a = rnat () in let b = rnat () in (a, b)) in
    let msgs = mp_order_messages te in
    let deps = mp_order_edges msgs in
    let key (a, b) = (int_of_nat a, int_of_nat b) in
    let pos = Hashtbl.create 64 in
    List.iteri (fun i m -> Hashtbl.replace pos (key m) i) order;
    let perm = List.length order = List.length msgs && Hashtbl.length pos = List.length order && List.for_all (fun m -> Hashtbl.mem pos (key m)) msgs in
    let topo = perm && List.for_all (fun (m1, m2) -> Hashtbl.find pos (key m1) < Hashtbl.find pos (key m2)) deps in
    Printf.sprintf "messages=%d edges=%d perm=%b topo=%b" (List.length msgs) (List.length deps) perm topo);
  ()
